#!/bin/sh
# Offline setup: nothing to build for the Verus route; warm the Kani target directory (dependencies of
# nexosim compiled once under Kani's toolchain) so that the first Kani-based check does not pay for it.
cd "$(dirname "$0")" || exit 1
export CARGO_NET_OFFLINE=true
python3 -m vk.kani_warm || true
# ... and the loom target directory (nexosim's test build under --cfg nexosim_loom, release profile)
python3 -m vk.loomrun quick > /dev/null 2>&1 || true
exit 0
