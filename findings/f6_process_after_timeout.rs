//! Finding F6 (C11): after a fatal error every further attempt to run the simulation must return
//! `Terminated` and must not panic. After a `Timeout` on the single-threaded executor, `process_event`,
//! `process_query` and `process` panicked (`Option::unwrap()` on the executor state that the timed-out
//! worker thread still owns), because they spawn on the executor before `run()` looks at `is_terminated`.

use std::panic::{catch_unwind, AssertUnwindSafe};
use std::time::Duration;

use nexosim::model::Model;
use nexosim::ports::{EventSource, Output};
use nexosim::simulation::{ExecutionError, Mailbox, SimInit};
use nexosim::time::MonotonicTime;

struct Looper {
    output: Output<()>,
}
impl Looper {
    async fn input(&mut self) {
        self.output.send(()).await;
    }
    async fn query(&mut self) -> u8 {
        7
    }
}
impl Model for Looper {}

fn after_timeout(num_threads: usize) {
    let mut model = Looper { output: Output::default() };
    let mbox = Mailbox::new();
    let addr = mbox.address();
    // loopback connection: the first event never stops re-sending itself
    model.output.connect(Looper::input, addr.clone());
    let mut src = EventSource::new();
    src.connect(Looper::input, &addr);

    let mut simu = SimInit::with_num_threads(num_threads)
        .add_model(model, mbox, "looper")
        .set_timeout(Duration::from_millis(300))
        .init(MonotonicTime::EPOCH)
        .unwrap()
        .0;

    assert!(matches!(simu.process_event(Looper::input, (), &addr), Err(ExecutionError::Timeout)));

    // every further attempt to run the simulation returns Terminated - it does not panic
    let r = catch_unwind(AssertUnwindSafe(|| simu.process_event(Looper::input, (), &addr)));
    assert!(matches!(r, Ok(Err(ExecutionError::Terminated))), "process_event after Timeout: {:?}", r.map(|x| x.map_err(|e| e.to_string())).map_err(|_| "panicked"));
    let r = catch_unwind(AssertUnwindSafe(|| simu.process_query(Looper::query, (), &addr)));
    assert!(matches!(r, Ok(Err(ExecutionError::Terminated))), "process_query after Timeout: {:?}", r.map(|x| x.map_err(|e| e.to_string())).map_err(|_| "panicked"));
    let r = catch_unwind(AssertUnwindSafe(|| simu.process(src.event(()))));
    assert!(matches!(r, Ok(Err(ExecutionError::Terminated))), "process after Timeout: {:?}", r.map(|x| x.map_err(|e| e.to_string())).map_err(|_| "panicked"));
    let r = catch_unwind(AssertUnwindSafe(|| simu.step()));
    assert!(matches!(r, Ok(Err(ExecutionError::Terminated))), "step after Timeout");
}

#[test]
fn f6_process_after_timeout_st() {
    after_timeout(1);
}

#[test]
fn f6_process_after_timeout_mt() {
    after_timeout(4);
}
