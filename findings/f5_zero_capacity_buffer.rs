use nexosim::ports::{EventBuffer, EventSink, EventSinkWriter};
#[test]
fn f5_zero_capacity_buffer_unbounded() {
    let mut b: EventBuffer<u32> = EventBuffer::with_capacity(0);
    let w = b.writer();
    for i in 0..10 { w.write(i); }
    let got: Vec<u32> = (&mut b).collect();
    println!("capacity 0 retained {:?}", got);
    assert!(got.len() <= 0);
}
