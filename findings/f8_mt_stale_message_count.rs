//! Replays the window in the multi-threaded executor between the moment a
//! worker makes the pool look idle and the moment it folds its thread-local
//! count of in-flight messages into the executor-wide counter.
//!
//! Run with:
//!
//! ```text
//! RUSTFLAGS="--cfg asynchronix_verif" cargo test -p nexosim --test f8_mt_stale_message_count
//! ```
//!
//! Two schedules are replayed with the pause points of `nexosim::verif_hooks`:
//!
//! * `deadlock_is_reported_when_executor_checks_early`: the last active worker
//!   is held right where it (formerly) had marked the pool idle but had not yet
//!   published its message count, while the executor thread performs its first
//!   idle check. A simulation that is really deadlocked must still be reported
//!   as deadlocked.
//!
//! * `clean_run_is_ok_when_a_worker_is_slow_to_park`: a worker that is *not*
//!   the last active one is held right where it (formerly) had marked itself
//!   inactive but had not yet published its message count, while the last
//!   worker completes and wakes the executor. A run in which every message was
//!   processed must return `Ok(())`.
#![cfg(asynchronix_verif)]

use std::panic::{self, AssertUnwindSafe};
use std::sync::{Arc, Condvar, Mutex};
use std::thread;
use std::time::{Duration, Instant};

use nexosim::model::Model;
use nexosim::ports::Output;
use nexosim::simulation::{DeadlockInfo, ExecutionError, Mailbox, SimInit};
use nexosim::time::MonotonicTime;
use nexosim::verif_hooks::set_pause_hook;

const EXECUTOR_POINT: &str = "mt_executor:run_before_first_idle_check";
const LAST_WORKER_POINT: &str = "mt_worker:all_inactive_before_count_fold";
const OTHER_WORKER_POINT: &str = "mt_worker:inactive_before_count_fold";

/// How long a worker is held at its pause point if nobody releases it.
const HOLD: Duration = Duration::from_millis(500);
/// Upper bound on any other wait, so that a wrong guess cannot hang the test.
const PATIENCE: Duration = Duration::from_secs(5);

/// The pause hook is process-global: the tests of this file must not overlap.
static SERIAL: Mutex<()> = Mutex::new(());

/// A set of named flags that threads can raise and wait for.
#[derive(Default)]
struct Flags {
    raised: Mutex<Vec<&'static str>>,
    changed: Condvar,
}
impl Flags {
    fn raise(&self, flag: &'static str) {
        self.raised.lock().unwrap().push(flag);
        self.changed.notify_all();
    }
    /// Raises the flag; returns `true` if this call was the first to do so.
    fn raise_once(&self, flag: &'static str) -> bool {
        let mut raised = self.raised.lock().unwrap();
        if raised.contains(&flag) {
            return false;
        }
        raised.push(flag);
        self.changed.notify_all();
        true
    }
    /// Waits for the flag, returns whether it was raised before the timeout.
    fn wait(&self, flag: &'static str, timeout: Duration) -> bool {
        let deadline = Instant::now() + timeout;
        let mut raised = self.raised.lock().unwrap();
        while !raised.contains(&flag) {
            let now = Instant::now();
            if now >= deadline {
                return false;
            }
            raised = self.changed.wait_timeout(raised, deadline - now).unwrap().0;
        }
        true
    }
}

// ---------------------------------------------------------------------------
// Schedule 1: a real deadlock, executor checks while the last worker is in the
// window.
// ---------------------------------------------------------------------------

#[derive(Default)]
struct Looper {
    output: Output<()>,
}
impl Looper {
    async fn activate_output(&mut self) {
        self.output.send(()).await;
    }
}
impl Model for Looper {}

/// The callback is taken out of its slot while it runs, so a callback that
/// blocks must first install a fresh copy of itself for the other threads.
fn install_early_check_hook(flags: Arc<Flags>) {
    let again = flags.clone();
    set_pause_hook(Some(Box::new(move |point: &str| match point {
        EXECUTOR_POINT => {
            if flags.raise_once("executor at first check") {
                install_early_check_hook(again.clone());
                // Let the worker run the whole step and reach its own point.
                flags.wait("worker at pause point", PATIENCE);
            }
        }
        LAST_WORKER_POINT => {
            if flags.raise_once("worker at pause point") {
                // Stay here while the executor thread makes its idle check.
                flags.wait("run returned", HOLD);
            }
        }
        _ => {}
    })));
}

#[test]
fn deadlock_is_reported_when_executor_checks_early() {
    let _serial = SERIAL.lock().unwrap_or_else(|e| e.into_inner());

    const MODEL_NAME: &str = "looper";
    const MAILBOX_SIZE: usize = 5;

    // Same bench as `deadlock_on_mailbox_overflow` in the integration tests:
    // each message makes the model send two messages to itself, so its
    // mailbox overflows and the model blocks forever on its own mailbox.
    let mut model = Looper::default();
    let mbox = Mailbox::with_capacity(MAILBOX_SIZE);
    let addr = mbox.address();
    model.output.connect(Looper::activate_output, addr.clone());
    model.output.connect(Looper::activate_output, addr.clone());

    let mut simu = SimInit::with_num_threads(2)
        .add_model(model, mbox, MODEL_NAME)
        .init(MonotonicTime::EPOCH)
        .unwrap()
        .0;

    let flags = Arc::new(Flags::default());
    install_early_check_hook(flags.clone());

    let first = simu.process_event(Looper::activate_output, (), addr.clone());

    flags.raise("run returned");
    set_pause_hook(None);
    // Let the worker finish what it was doing and park.
    thread::sleep(Duration::from_millis(100));
    let second = simu.process_event(Looper::activate_output, (), addr);

    eprintln!("deadlocked step returned        : {:?}", first);
    eprintln!("the call after it then returned : {:?}", second);

    assert!(
        flags.wait("worker at pause point", Duration::ZERO),
        "the schedule was not replayed: the worker never reached its pause point"
    );
    match first {
        Err(ExecutionError::Deadlock(info)) => assert_eq!(
            info,
            vec![DeadlockInfo {
                model: MODEL_NAME.into(),
                mailbox_size: MAILBOX_SIZE
            }]
        ),
        other => panic!(
            "the model is blocked on its own full mailbox, but the step returned {:?}",
            other
        ),
    }
}

// ---------------------------------------------------------------------------
// Schedule 2: a clean run, a worker other than the last one is slow to park.
// ---------------------------------------------------------------------------

/// Forwards an event to two consumers.
#[derive(Default)]
struct Producer {
    output: Output<()>,
}
impl Producer {
    async fn trigger(&mut self) {
        self.output.send(()).await;
    }
}
impl Model for Producer {}

/// Consumes an event, but only once the other consumer is doing the same on
/// another thread: this forces the two consumers onto different workers, so
/// that the thread which sent the messages keeps a positive count and the
/// other one a negative count.
struct Consumer {
    meeting: Arc<Flags>,
    me: &'static str,
    other: &'static str,
}
impl Consumer {
    async fn input(&mut self) {
        self.meeting.raise(self.me);
        self.meeting.wait(self.other, PATIENCE);
    }
}
impl Model for Consumer {}

fn install_slow_parker_hook(flags: Arc<Flags>) {
    let again = flags.clone();
    set_pause_hook(Some(Box::new(move |point: &str| {
        if point == OTHER_WORKER_POINT && flags.raise_once("worker at pause point") {
            install_slow_parker_hook(again.clone());
            // Stay here while the other worker completes and the executor
            // thread makes its idle check.
            flags.wait("run returned", HOLD);
        }
    })));
}

#[test]
fn clean_run_is_ok_when_a_worker_is_slow_to_park() {
    let _serial = SERIAL.lock().unwrap_or_else(|e| e.into_inner());

    let meeting = Arc::new(Flags::default());
    let mut producer = Producer::default();
    let producer_mbox = Mailbox::new();
    let producer_addr = producer_mbox.address();
    let consumer1 = Consumer {
        meeting: meeting.clone(),
        me: "consumer 1",
        other: "consumer 2",
    };
    let consumer2 = Consumer {
        meeting: meeting.clone(),
        me: "consumer 2",
        other: "consumer 1",
    };
    let mbox1 = Mailbox::new();
    let mbox2 = Mailbox::new();
    producer.output.connect(Consumer::input, mbox1.address());
    producer.output.connect(Consumer::input, mbox2.address());

    let mut simu = SimInit::with_num_threads(2)
        .add_model(producer, producer_mbox, "producer")
        .add_model(consumer1, mbox1, "consumer1")
        .add_model(consumer2, mbox2, "consumer2")
        .init(MonotonicTime::EPOCH)
        .unwrap()
        .0;

    let flags = Arc::new(Flags::default());
    install_slow_parker_hook(flags.clone());

    // The executor converts the count to `usize` with `unwrap`, so a negative
    // count shows as a panic on this thread.
    let outcome = panic::catch_unwind(AssertUnwindSafe(|| {
        simu.process_event(Producer::trigger, (), producer_addr)
    }));

    flags.raise("run returned");
    set_pause_hook(None);

    eprintln!("clean step returned: {:?}", outcome);

    assert!(
        meeting.wait("consumer 1", Duration::ZERO) && meeting.wait("consumer 2", Duration::ZERO),
        "both consumers should have processed their event"
    );
    assert!(
        flags.wait("worker at pause point", Duration::ZERO),
        "the schedule was not replayed: no worker reached the pause point"
    );
    match outcome {
        Ok(Ok(())) => {}
        Ok(Err(e)) => panic!(
            "all 3 messages were sent and received, but the step returned {:?}",
            e
        ),
        Err(payload) => panic!(
            "all 3 messages were sent and received, but the step panicked: {:?}",
            payload
                .downcast_ref::<String>()
                .map(String::as_str)
                .or(payload.downcast_ref::<&str>().copied())
        ),
    }
}
