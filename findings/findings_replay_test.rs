use std::time::Duration;
use nexosim::model::{BuildContext, Context, Model, ProtoModel};
use nexosim::ports::{EventBuffer, EventSource, Output, Requestor};
use nexosim::simulation::{ExecutionError, Mailbox, SimInit};
use nexosim::time::MonotonicTime;

#[derive(Default)]
struct Echo { out: Output<u32> }
impl Echo {
    async fn input(&mut self, v: u32) { self.out.send(v).await; }
}
impl Model for Echo {}

// A model that queries itself -> deadlock.
#[derive(Default)]
struct Looper { req: Requestor<(), ()> }
impl Looper {
    async fn trigger(&mut self) { self.req.send(()).await; }
    async fn reply(&mut self, _: ()) {}
}
impl Model for Looper {}

struct Parent;
impl Model for Parent {}
struct ProtoParent { child_mbox: Mailbox<Looper>, child: Looper }
impl ProtoModel for ProtoParent {
    type Model = Parent;
    fn build(self, cx: &mut BuildContext<Self>) -> Parent {
        cx.add_submodel(self.child, self.child_mbox, "child");
        Parent
    }
}

#[test]
fn f1_terminated_sim_moves_time() {
    // deadlock first
    let mut looper = Looper::default();
    let mbox = Mailbox::new();
    let addr = mbox.address();
    looper.req.connect(Looper::reply, &mbox);
    let t0 = MonotonicTime::EPOCH;
    let (mut simu, sched) = SimInit::with_num_threads(1).add_model(looper, mbox, "looper").init(t0).unwrap();
    let r = simu.process_event(Looper::trigger, (), &addr);
    println!("first error: {:?}", r);
    assert!(matches!(r, Err(ExecutionError::Deadlock(_))));
    sched.schedule_event(Duration::from_secs(5), Looper::trigger, (), &addr).unwrap();
    let r2 = simu.step();
    println!("step after fatal: {:?}, time = {}", r2, simu.time());
    let r3 = simu.step_until(Duration::from_secs(100));
    println!("step_until after fatal: {:?}, time = {}", r3, simu.time());
    assert_eq!(simu.time(), t0, "F1: time moved on a terminated simulation");
}

#[test]
fn f3_submodel_deadlock_report() {
    let mut child = Looper::default();
    let child_mbox = Mailbox::new();
    let child_addr = child_mbox.address();
    child.req.connect(Looper::reply, &child_mbox);
    let t0 = MonotonicTime::EPOCH;
    let (mut simu, _s) = SimInit::with_num_threads(1)
        .add_model(ProtoParent { child_mbox, child }, Mailbox::new(), "parent")
        .init(t0).unwrap();
    let r = simu.process_event(Looper::trigger, (), &child_addr);
    println!("submodel deadlock reported as: {:?}", r);
    assert!(matches!(r, Err(ExecutionError::Deadlock(_))), "F3");
}

#[test]
fn f2_zero_period_action_accepted() {
    let mut echo = Echo::default();
    let sink = EventBuffer::new();
    echo.out.connect_sink(&sink);
    let mbox = Mailbox::new();
    let mut src = EventSource::new();
    src.connect(Echo::input, &mbox);
    let t0 = MonotonicTime::EPOCH;
    let (_simu, sched) = SimInit::with_num_threads(1).add_model(echo, mbox, "echo").init(t0).unwrap();
    let action = src.periodic_event(Duration::ZERO, 7u32);
    let r = sched.schedule(Duration::from_secs(1), action);
    println!("schedule zero-period action: {:?}", r);
    assert!(r.is_err(), "F2: zero period accepted");
}
