// Replay of finding F3 (C06): a deadlock whose stuck message sits in a SUB-model's mailbox was
// reported as MessageLoss (sub-model mailboxes were never registered with the deadlock detection).
use nexosim::model::{BuildContext, Model, ProtoModel};
use nexosim::ports::Requestor;
use nexosim::simulation::{ExecutionError, Mailbox, SimInit};
use nexosim::time::MonotonicTime;

// A model that queries itself -> deadlock.
#[derive(Default)]
struct Looper {
    req: Requestor<(), ()>,
}
impl Looper {
    async fn trigger(&mut self) {
        self.req.send(()).await;
    }
    async fn reply(&mut self, _: ()) {}
}
impl Model for Looper {}

struct Parent;
impl Model for Parent {}
struct ProtoParent {
    child_mbox: Mailbox<Looper>,
    child: Looper,
}
impl ProtoModel for ProtoParent {
    type Model = Parent;
    fn build(self, cx: &mut BuildContext<Self>) -> Parent {
        cx.add_submodel(self.child, self.child_mbox, "child");
        Parent
    }
}

#[test]
fn f3_submodel_deadlock_report() {
    let mut child = Looper::default();
    let child_mbox = Mailbox::new();
    let child_addr = child_mbox.address();
    child.req.connect(Looper::reply, &child_mbox);
    let t0 = MonotonicTime::EPOCH;
    let (mut simu, _s) = SimInit::with_num_threads(1)
        .add_model(ProtoParent { child_mbox, child }, Mailbox::new(), "parent")
        .init(t0)
        .unwrap();
    let r = simu.process_event(Looper::trigger, (), &child_addr);
    println!("sub-model deadlock reported as: {:?}", r);
    match r {
        Err(ExecutionError::Deadlock(list)) => {
            assert_eq!(list.len(), 1);
            assert_eq!(list[0].model, "parent.child");
            assert_eq!(list[0].mailbox_size, 1);
        }
        other => panic!("F3: expected Deadlock([parent.child: 1]), got {:?}", other),
    }
}
