// Replay of finding F4 (C08, C01). Needs RUSTFLAGS="--cfg asynchronix_verif" (pause-point hook).
// A Scheduler handle used while step_until() is between "the queue holds nothing due up to the
// target" and "the time is set to the target" gets its request validated against the OLD time:
// the event is accepted with a deadline that is in the past once step_until returns, and the next
// step() moves the simulation time BACKWARDS.
use std::sync::{Arc, Mutex};
use std::time::Duration;

use nexosim::model::Model;
use nexosim::ports::{EventBuffer, Output};
use nexosim::simulation::{Mailbox, SimInit};
use nexosim::time::MonotonicTime;

#[derive(Default)]
struct Echo {
    out: Output<u32>,
}
impl Echo {
    async fn input(&mut self, v: u32) {
        self.out.send(v).await;
    }
}
impl Model for Echo {}

#[test]
fn f4_schedule_during_step_until_goes_back_in_time() {
    let mut echo = Echo::default();
    let mut sink = EventBuffer::new();
    echo.out.connect_sink(&sink);
    let mbox = Mailbox::new();
    let addr = mbox.address();
    let t0 = MonotonicTime::EPOCH;
    let (mut simu, scheduler) = SimInit::with_num_threads(1)
        .add_model(echo, mbox, "echo")
        .init(t0)
        .unwrap();

    // The racing thread, replayed deterministically at the pause point: schedule an event 1 s from "now".
    let accepted = Arc::new(Mutex::new(None));
    let accepted2 = accepted.clone();
    let sched2 = scheduler.clone();
    let addr2 = addr.clone();
    nexosim::verif_hooks::set_pause_hook(Some(Box::new(move |name: &str| {
        if name == "step_until:queue_found_idle" && accepted2.lock().unwrap().is_none() {
            let r = sched2.schedule_event(Duration::from_secs(1), Echo::input, 7u32, &addr2);
            *accepted2.lock().unwrap() = Some(r.is_ok());
        }
    })));

    simu.step_until(Duration::from_secs(10)).unwrap();
    nexosim::verif_hooks::set_pause_hook(None);
    let t_after_until = simu.time();
    assert_eq!(t_after_until, t0 + Duration::from_secs(10));
    assert_eq!(*accepted.lock().unwrap(), Some(true), "the racing request was accepted");

    // Whatever happens to the accepted request, the time must never go backwards and the event,
    // having been accepted for t0 + 1 s, must not be delivered at a later time.
    let delivered_during_until = sink.next();
    simu.step().unwrap();
    let t_after_step = simu.time();
    println!(
        "after step_until: {t_after_until}; delivered during step_until: {delivered_during_until:?}; after step(): {t_after_step}"
    );
    assert!(t_after_step >= t_after_until, "F4: simulation time went backwards: {t_after_until} -> {t_after_step}");
    assert_eq!(delivered_during_until, Some(7), "F4: the accepted event was not executed at its deadline");
}
