//! Probe: a nested single-threaded simulation whose model panics leaks its
//! in-flight message count into the enclosing single-threaded executor.
//!
//! The inner bench has two registered models; `leaf` sends one message to
//! `other` and then panics, so the inner run ends with `ExecutionError::Panic`
//! while one inner message is still in flight. The enclosing handler handles
//! that error gracefully. The enclosing bench processes every message it
//! sends, so its run must return `Ok(())`.

use nexosim::model::Model;
use nexosim::ports::Output;
use nexosim::simulation::{ExecutionError, Mailbox, SimInit};
use nexosim::time::MonotonicTime;

#[derive(Default)]
struct Leaf {
    output: Output<()>,
}
impl Leaf {
    async fn emit_then_panic(&mut self) {
        self.output.send(()).await;
        panic!("boom");
    }
    async fn sink(&mut self) {}
}
impl Model for Leaf {}

/// Runs the inner bench and returns the outcome of its run.
fn run_panicking_inner_bench() -> Result<(), ExecutionError> {
    let mut leaf = Leaf::default();
    let mbox = Mailbox::new();
    let addr = mbox.address();
    let other_mbox: Mailbox<Leaf> = Mailbox::new();
    leaf.output.connect(Leaf::sink, &other_mbox);

    let mut inner = SimInit::with_num_threads(1)
        .add_model(leaf, mbox, "leaf")
        .add_model(Leaf::default(), other_mbox, "other")
        .init(MonotonicTime::EPOCH)
        .unwrap()
        .0;

    inner.process_event(Leaf::emit_then_panic, (), addr)
}

struct Host;
impl Host {
    async fn go(&mut self) {
        match run_panicking_inner_bench() {
            Err(ExecutionError::Panic { .. }) => {}
            other => panic!("unexpected outcome of the inner run: {:?}", other),
        }
    }
}
impl Model for Host {}

#[test]
fn f7_nested_panic_leaks_inflight_count() {
    let mbox = Mailbox::new();
    let addr = mbox.address();
    let mut outer = SimInit::with_num_threads(1)
        .add_model(Host, mbox, "host")
        .init(MonotonicTime::EPOCH)
        .unwrap()
        .0;

    let res = outer.process_event(Host::go, (), &addr);

    assert!(
        res.is_ok(),
        "enclosing run processed all its messages but reported: {:?}",
        res
    );
}
