
#[cfg(kani)]
mod verif_kani {
    use super::*;

    #[kani::proof]
    #[kani::unwind(3)]
    fn clones_share_writes() {
        let v0: u32 = kani::any();
        let v1: u32 = kani::any();
        let mut a: CachedRwLock<u32> = CachedRwLock::new(v0);
        let mut b = a.clone();
        // scratchpad edits on b are local only
        let s: u32 = kani::any();
        *b.write_scratchpad().unwrap() = s;
        assert!(*a.write_scratchpad().unwrap() == v0);
        // a write through a must be seen by b's next synchronized access
        {
            let mut g = a.write().unwrap();
            *g = v1;
        }
        assert!(*b.write_scratchpad().unwrap() == v1);
        assert!(*a.write_scratchpad().unwrap() == v1);
        let c = b.clone();
        let mut c = c;
        assert!(*c.write_scratchpad().unwrap() == v1);
    }
}
