
#[cfg(kani)]
mod verif_kani {
    use super::*;

    const MAXCAP: usize = 8;

    /// Builds a queue in an arbitrary state satisfying the representation invariant:
    /// any sequence count, any dequeue index, any fill level, open or closed.
    /// Returns the queue, the abstract view (payloads in FIFO order) and its length.
    fn any_valid_queue(capacity: usize) -> (Queue<u8>, [u8; MAXCAP], usize, bool) {
        let q: Queue<u8> = Queue::new(capacity);
        let s: usize = kani::any();
        let idx: usize = kani::any();
        kani::assume(idx < capacity);
        let len: usize = kani::any();
        kani::assume(len <= capacity);
        let closed: bool = kani::any();
        let dequeue_pos = (s & !q.right_mask) | idx;
        let mut view = [0u8; MAXCAP];
        let mut pos = dequeue_pos;
        let mut k = 0;
        while k < capacity {
            let i = pos & q.right_mask;
            if k < len {
                let v: u8 = kani::any();
                view[k] = v;
                q.buffer[i].stamp.store(pos + 1, Ordering::Relaxed);
                unsafe {
                    q.buffer[i].message.with_mut(|m| {
                        let b = match mem::replace(&mut *m, MessageBox::None) {
                            MessageBox::Vacated(b) => b,
                            _ => unreachable!(),
                        };
                        *m = MessageBox::Populated(RecycleBox::recycle(b, v));
                    });
                }
            } else {
                q.buffer[i].stamp.store(pos, Ordering::Relaxed);
            }
            if k + 1 == len || (len == 0 && k == 0) {
                // remember the enqueue position once `len` items are laid out
            }
            pos = q.next_queue_pos(pos);
            k += 1;
        }
        // enqueue position = dequeue position advanced `len` times
        let mut enq = dequeue_pos;
        let mut k = 0;
        while k < len {
            enq = q.next_queue_pos(enq);
            k += 1;
        }
        q.dequeue_pos.store(dequeue_pos, Ordering::Relaxed);
        q.enqueue_pos
            .store(if closed { enq | q.closed_channel_mask } else { enq }, Ordering::Relaxed);
        (q, view, len, closed)
    }

    /// Checks the representation invariant against an expected abstract view.
    fn check_valid(q: &Queue<u8>, capacity: usize, view: &[u8; MAXCAP], len: usize, closed: bool) {
        let deq = q.dequeue_pos.load(Ordering::Relaxed);
        let enq_raw = q.enqueue_pos.load(Ordering::Relaxed);
        assert!((enq_raw & q.closed_channel_mask != 0) == closed);
        let enq = enq_raw & !q.closed_channel_mask;
        assert!(deq & q.closed_channel_mask == 0);
        assert!(deq & q.right_mask < capacity);
        let mut pos = deq;
        let mut k = 0;
        while k < capacity {
            let i = pos & q.right_mask;
            let stamp = q.buffer[i].stamp.load(Ordering::Relaxed);
            if k == len {
                assert!(pos == enq);
            }
            if k < len {
                assert!(stamp == pos + 1);
                unsafe {
                    q.buffer[i].message.with(|m| match &*m {
                        MessageBox::Populated(b) => assert!(**b == view[k]),
                        _ => assert!(false),
                    });
                }
            } else {
                assert!(stamp == pos);
                unsafe {
                    q.buffer[i].message.with(|m| assert!(matches!(&*m, MessageBox::Vacated(_))));
                }
            }
            pos = q.next_queue_pos(pos);
            k += 1;
        }
        assert!(q.len() == len);
    }

    fn push_contract(capacity: usize) {
        let (q, mut view, len, closed) = any_valid_queue(capacity);
        let v: u8 = kani::any();
        match q.push(|b| RecycleBox::recycle(b, v)) {
            Ok(()) => {
                assert!(!closed && len < capacity);
                view[len] = v;
                check_valid(&q, capacity, &view, len + 1, closed);
            }
            Err(PushError::Full(_)) => {
                assert!(!closed && len == capacity);
                check_valid(&q, capacity, &view, len, closed);
            }
            Err(PushError::Closed) => {
                assert!(closed);
                check_valid(&q, capacity, &view, len, closed);
            }
        }
        mem::forget(q);
    }

    fn pop_contract(capacity: usize) {
        let (q, view, len, closed) = any_valid_queue(capacity);
        match unsafe { q.pop() } {
            Ok(m) => {
                assert!(len > 0);
                assert!(*m == view[0]);
                drop(m);
                let mut tail = [0u8; MAXCAP];
                let mut k = 1;
                while k < len {
                    tail[k - 1] = view[k];
                    k += 1;
                }
                check_valid(&q, capacity, &tail, len - 1, closed);
            }
            Err(PopError::Empty) => {
                assert!(len == 0 && !closed);
                check_valid(&q, capacity, &view, len, closed);
            }
            Err(PopError::Closed) => {
                assert!(len == 0 && closed);
                check_valid(&q, capacity, &view, len, closed);
            }
        }
        mem::forget(q);
    }


    fn close_contract(capacity: usize) {
        let (q, view, len, closed) = any_valid_queue(capacity);
        assert!(q.is_closed() == closed);
        q.close();
        assert!(q.is_closed());
        // closing keeps every accepted message receivable, in order
        check_valid(&q, capacity, &view, len, true);
        mem::forget(q);
    }

    /// position arithmetic, complete for one capacity: all sequence counts (incl. wrap-around of the
    /// sequence count), all indices
    /// C06 / C12: len() is the number of queued messages in EVERY state satisfying the representation invariant,
    /// whatever the capacity (power of two or not), sequence count and dequeue index.
    fn len_contract(capacity: usize) {
        let (q, _view, len, _closed) = any_valid_queue(capacity);
        assert!(q.len() == len);
        kani::cover!(len == capacity);
        kani::cover!(len > 0 && len < capacity);
        mem::forget(q);
    }

    fn pos_contract(capacity: usize) {
        let q: Queue<u8> = Queue::new(capacity);
        let s: usize = kani::any();
        let idx: usize = kani::any();
        kani::assume(idx < capacity);
        let pos = (s & !q.right_mask) | idx;
        kani::cover!(idx + 1 == capacity);
        let next = q.next_queue_pos(pos);
        assert!(next & q.closed_channel_mask == 0);
        if idx + 1 < capacity {
            assert!(next == pos + 1);
        } else {
            assert!(next & q.right_mask == 0);
            assert!(next & !q.right_mask == (pos & !q.right_mask).wrapping_add(q.right_mask + 1));
        }
        mem::forget(q);
    }
    #[kani::proof]
    #[kani::unwind(4)]
    fn push_contract_cap1() { push_contract(1); }
    #[kani::proof]
    #[kani::unwind(4)]
    fn pop_contract_cap1() { pop_contract(1); }
    #[kani::proof]
    #[kani::unwind(4)]
    fn close_contract_cap1() { close_contract(1); }
    #[kani::proof]
    #[kani::unwind(4)]
    fn pos_contract_cap1() { pos_contract(1); }
    #[kani::proof]
    #[kani::unwind(5)]
    fn push_contract_cap2() { push_contract(2); }
    #[kani::proof]
    #[kani::unwind(5)]
    fn pop_contract_cap2() { pop_contract(2); }
    #[kani::proof]
    #[kani::unwind(5)]
    fn close_contract_cap2() { close_contract(2); }
    #[kani::proof]
    #[kani::unwind(5)]
    fn pos_contract_cap2() { pos_contract(2); }
    #[kani::proof]
    #[kani::unwind(6)]
    fn push_contract_cap3() { push_contract(3); }
    #[kani::proof]
    #[kani::unwind(6)]
    fn pop_contract_cap3() { pop_contract(3); }
    #[kani::proof]
    #[kani::unwind(6)]
    fn close_contract_cap3() { close_contract(3); }
    #[kani::proof]
    #[kani::unwind(6)]
    fn pos_contract_cap3() { pos_contract(3); }
    #[kani::proof]
    #[kani::unwind(7)]
    fn push_contract_cap4() { push_contract(4); }
    #[kani::proof]
    #[kani::unwind(7)]
    fn pop_contract_cap4() { pop_contract(4); }
    #[kani::proof]
    #[kani::unwind(7)]
    fn close_contract_cap4() { close_contract(4); }
    #[kani::proof]
    #[kani::unwind(7)]
    fn pos_contract_cap4() { pos_contract(4); }
    #[kani::proof]
    #[kani::unwind(8)]
    fn push_contract_cap5() { push_contract(5); }
    #[kani::proof]
    #[kani::unwind(8)]
    fn pop_contract_cap5() { pop_contract(5); }
    #[kani::proof]
    #[kani::unwind(8)]
    fn close_contract_cap5() { close_contract(5); }
    #[kani::proof]
    #[kani::unwind(8)]
    fn pos_contract_cap5() { pos_contract(5); }
    // Sequential history check against a FIFO reference model.
    #[kani::proof]
    #[kani::unwind(6)]
    fn len_contract_cap3() { len_contract(3); }
    #[kani::proof]
    #[kani::unwind(7)]
    fn len_contract_cap4() { len_contract(4); }
    #[kani::proof]
    #[kani::unwind(8)]
    fn len_contract_cap5() { len_contract(5); }
    #[kani::proof]
    #[kani::unwind(9)]
    fn len_contract_cap6() { len_contract(6); }
    #[kani::proof]
    #[kani::unwind(10)]
    fn len_contract_cap7() { len_contract(7); }

    fn seq_history(capacity: usize, nops: usize) {
        let q: Queue<u8> = Queue::new(capacity);
        // model
        let mut model = [0u8; 8];
        let mut head = 0usize; // number popped
        let mut tail = 0usize; // number pushed
        let mut closed = false;
        for _ in 0..nops {
            let op: u8 = kani::any();
            match op % 4 {
                0 => {
                    let v: u8 = kani::any();
                    match q.push(|b| RecycleBox::recycle(b, v)) {
                        Ok(()) => {
                            assert!(!closed);
                            assert!(tail - head < capacity);
                            model[tail % 8] = v;
                            tail += 1;
                        }
                        Err(PushError::Full(_)) => {
                            assert!(!closed);
                            assert!(tail - head == capacity);
                        }
                        Err(PushError::Closed) => assert!(closed),
                    }
                }
                1 => {
                    match unsafe { q.pop() } {
                        Ok(m) => {
                            assert!(tail > head);
                            assert!(*m == model[head % 8]);
                            head += 1;
                        }
                        Err(PopError::Empty) => assert!(tail == head && !closed),
                        Err(PopError::Closed) => assert!(tail == head && closed),
                    }
                }
                2 => {
                    q.close();
                    closed = true;
                    assert!(q.is_closed());
                }
                _ => {
                    assert!(q.len() == tail - head);
                }
            }
        }
        std::mem::forget(q);
    }

    #[kani::proof]
    #[kani::unwind(6)]
    fn seq_history_cap2_ops5() { seq_history(2, 5); }
}
