#[cfg(kani)]
mod verif_kani {
    use super::*;
    use std::mem;

    fn any_duration() -> Duration {
        let s: u64 = kani::any();
        let n: u32 = kani::any();
        kani::assume(n < 1_000_000_000);
        Duration::new(s, n)
    }

    /// C09: every clone of a key observes the same cancellation flag; cancel only ever sets it.
    #[kani::proof]
    fn action_key_clones_share_flag() {
        let k = ActionKey::new();
        assert!(!k.is_cancelled());
        let k2 = k.clone();
        let k3 = k2.clone();
        k2.cancel();
        assert!(k.is_cancelled() && k3.is_cancelled());
        // cancelling again (through another clone) changes nothing else
        k3.cancel();
        assert!(k.is_cancelled());
    }

    /// C09: dropping the auto-cancelling key cancels the action observed through any clone - however many other
    /// handles of the same key are alive (plain clones, the queued action, its next occurrence).
    #[kani::proof]
    fn auto_key_drop_cancels() {
        let k = ActionKey::new();
        let obs = k.clone();
        let n_extra: u8 = kani::any();
        kani::assume(n_extra <= 3);
        let extra1 = if n_extra >= 1 { Some(k.clone()) } else { None };
        let extra2 = if n_extra >= 2 { Some(k.clone()) } else { None };
        let extra3 = if n_extra >= 3 { Some(k.clone()) } else { None };
        let auto = k.into_auto();
        assert!(!obs.is_cancelled());
        drop(auto);
        assert!(obs.is_cancelled());
        mem::forget(extra1);
        mem::forget(extra2);
        mem::forget(extra3);
    }

    /// C09: the same with the handles held by a queued keyed periodic action and its next occurrence.
    #[kani::proof]
    fn auto_key_drop_cancels_queued_periodic_action() {
        let p = any_duration();
        let k = ActionKey::new();
        let a = KeyedPeriodicAction::new(|_k: ActionKey| async {}, p, k.clone());
        let next = ActionInner::next(&a);
        let auto = k.into_auto();
        assert!(!ActionInner::is_cancelled(&a));
        drop(auto);
        assert!(ActionInner::is_cancelled(&a));
        if let Some((b, _)) = &next {
            assert!(b.is_cancelled());
        }
        mem::forget(next);
        mem::forget(a);
    }

    /// C10: the next occurrence of a periodic action carries exactly the stored period (all Durations),
    /// for two generations. (Boxes are forgotten: the drop glue of `Box<dyn ActionInner>` is not exercised.)
    #[kani::proof]
    fn periodic_next_keeps_period() {
        let p = any_duration();
        let a = PeriodicAction::new(|| async {}, p);
        assert!(!ActionInner::is_cancelled(&a));
        match ActionInner::next(&a) {
            Some((b, q)) => {
                assert!(q == p);
                assert!(!b.is_cancelled());
                match b.next() {
                    Some((c, q2)) => { assert!(q2 == p); mem::forget(c); }
                    None => assert!(false),
                }
                mem::forget(b);
            }
            None => assert!(false),
        }
        mem::forget(a);
    }

    /// C10: a keyed periodic action and its later occurrences carry the stored period (all Durations).
    #[kani::proof]
    fn keyed_periodic_next_keeps_period() {
        let p = any_duration();
        let key = ActionKey::new();
        let a = KeyedPeriodicAction::new(|_k: ActionKey| async {}, p, key.clone());
        match ActionInner::next(&a) {
            Some((b, q)) => {
                assert!(q == p);
                match b.next() {
                    Some((c, q2)) => { assert!(q2 == p); mem::forget(c); }
                    None => assert!(false),
                }
                mem::forget(b);
            }
            None => assert!(false),
        }
        mem::forget(a);
        mem::forget(key);
    }

    /// C09: a keyed periodic action and all its later occurrences observe the same key.
    #[kani::proof]
    fn keyed_periodic_next_shares_key() {
        let p = any_duration();
        let key = ActionKey::new();
        let a = KeyedPeriodicAction::new(|_k: ActionKey| async {}, p, key.clone());
        assert!(!ActionInner::is_cancelled(&a));
        if let Some((b, _q)) = ActionInner::next(&a) {
            assert!(!b.is_cancelled());
            key.cancel();
            assert!(ActionInner::is_cancelled(&a) && b.is_cancelled());
            if let Some((c, _q2)) = b.next() {
                assert!(c.is_cancelled());
                mem::forget(c);
            }
            mem::forget(b);
        }
        mem::forget(a);
    }

    /// C10: one-shot actions have no next occurrence.
    #[kani::proof]
    fn once_actions_have_no_next() {
        let a = OnceAction::new(async {});
        assert!(ActionInner::next(&a).is_none());
        let key = ActionKey::new();
        let b = KeyedOnceAction::new(|_k: ActionKey| async {}, key.clone());
        assert!(ActionInner::next(&b).is_none());
        mem::forget(a);
        mem::forget(b);
        mem::forget(key);
    }

    /// C09: a one-shot action is never cancelled; the keyed one follows its key.
    #[kani::proof]
    fn keyed_once_follows_its_key() {
        let a = OnceAction::new(async {});
        assert!(!ActionInner::is_cancelled(&a));
        let key = ActionKey::new();
        let b = KeyedOnceAction::new(|_k: ActionKey| async {}, key.clone());
        assert!(!ActionInner::is_cancelled(&b));
        key.cancel();
        assert!(ActionInner::is_cancelled(&b));
        mem::forget(a);
        mem::forget(b);
    }

    /// C10: Action is a transparent wrapper: next delegates to the inner action (period kept).
    #[kani::proof]
    fn action_wrapper_delegates_next() {
        let p = any_duration();
        let key = ActionKey::new();
        let a = Action::new(KeyedPeriodicAction::new(|_k: ActionKey| async {}, p, key.clone()));
        match a.next() {
            Some((b, q)) => { assert!(q == p); mem::forget(b); }
            None => assert!(false),
        }
        mem::forget(a);
        mem::forget(key);
    }

    /// C09: Action is a transparent wrapper: is_cancelled delegates to the inner action.
    #[kani::proof]
    fn action_wrapper_delegates_cancel() {
        let p = any_duration();
        let key = ActionKey::new();
        let a = Action::new(KeyedPeriodicAction::new(|_k: ActionKey| async {}, p, key.clone()));
        assert!(!a.is_cancelled());
        if let Some((b, _q)) = a.next() {
            key.cancel();
            assert!(a.is_cancelled() && b.is_cancelled());
            mem::forget(b);
        }
        mem::forget(a);
    }
}
