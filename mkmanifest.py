#!/usr/bin/env python3
"""Regenerates MANIFEST.json from the per-property table below (kept in one place so that the
claims, the not_applicable list and the check commands cannot drift apart)."""
import json
import os

ROOT = os.path.dirname(os.path.abspath(__file__))
TECH_K = "Kani"
TECH_V = "contract-based deductive verification: Verus contracts on functions cut mechanically from /repo on every run"
TECH_VK = TECH_V + " + Kani (CBMC) harnesses on the real crate"

CLAIMS = {
    "C01": dict(
        text="Verus proves, for every queue content, bound and cancellation pattern, the contracts of Simulation::{step_to_next_bounded, step, step_until, step_until_unchecked, process, process_event, process_query, run, time} and SimInit::init: time never decreases, a step moves to the earliest live deadline and hands exactly the live actions due then to the executor before running it, pending actions stay strictly later than the time (units sim, sched, pq).",
        note="assumes A-exec (the executor runs what was spawned at the current time), the PriorityQueue contract proved in unit pq, tai_time exact; the async send futures built by process_event/process_query are opaque (R8); sequentialised (lock elision), concurrent schedulers are covered by the monitor pass under C08",
        ref="DESIGN.md §5 C01", tech=TECH_V + "; bounded executable stand-in (xsim) as counterexample generator and fallback, labelled bounded"),
    "C06": dict(
        text="Verus proves that Simulation::run maps UnprocessedMessages to Deadlock exactly when an observed mailbox is non-empty, listing exactly the non-empty observers with name and size in registration order, and to MessageLoss otherwise, for every observer vector and executor result (unit sim); and that every model added through SimInit::add_model or BuildContext::add_submodel, to any depth, gets exactly one mailbox observer registered under its qualified name (unit reg). Kani proves Queue::len (the observed size) exact when quiescent.",
        note="that the count handed up by the executor equals sent minus received is proved for the single-threaded executor's ExecutorInner::run (unit stexec: thread-locals as an explicit Tls value, the task loop abstracted; stand-in xexec supplies concrete scripts); the counter moves in Sender::send / Receiver::recv are decided only within the bound of stand-in xchan; for the multi-threaded executor, unit mtexec proves that Executor::run reports only from a pool it has seen idle and from a count read after that observation (a stale read is refuted); that the workers fold their per-thread counters before the pool looks idle is an assumption (A-mt) that was false until the fix of finding F8 and is not decided by any obligation; ProtoModel::build touches the registries only through add_submodel (private fields); A-exec",
        ref="DESIGN.md §5 C06", tech=TECH_VK + "; bounded executable stand-ins (xreg: registration and reports; xexec: the single-threaded executor's count; xchan: the counter moves of send / recv), labelled bounded"),
    "C07": dict(
        text="Verus proves: PriorityQueue is FIFO among equal keys (pq); scheduling inserts exactly one entry keyed (deadline, origin) (sched); a step puts all live same-(time, origin) entries into one task in queue order (sim); SeqFuture polls its futures strictly in push order (seqfut).",
        note="A-exec; the origin of the Scheduler / Context wrappers is under contract (unit sched: the global origin constant resp. the model's own mailbox id) and, for the Scheduler handle, exercised by stand-in xsched; that mailbox ids of distinct models differ is an assumption (addresses of live allocations); mailbox FIFO is C12",
        ref="DESIGN.md §5 C07", tech=TECH_V + "; bounded executable stand-ins (xsim, xpq) as counterexample generators and fallback, labelled bounded"),
    "C08": dict(
        text="Verus proves for all five GlobalScheduler::schedule_*_from: accepted iff deadline > now (read inside the critical section) and period non-zero, rejection has no effect, acceptance queues exactly the request; and termination (decreases clauses) of every loop of the stepping functions (units sched, sim). Monitor pass (simmon, schedmon): with the queue and the time havocked at every lock acquisition, every critical section re-establishes `queue sorted, all deadlines > time, no zero period` and the time is only written under the queue lock and never decreases.",
        note="sequentialised functional pass + monitor pass (units simmon, schedmon): queue havocked at every lock acquisition, invariant re-established at every release, time written only under the lock - valid for every interleaving of threads that follow the same lock protocol; stubs assumed to terminate; Mutex gives mutual exclusion",
        ref="DESIGN.md §5 C08", tech=TECH_V + "; bounded executable stand-ins (xsim, xsched) as counterexample generators and fallback, labelled bounded"),
    "C09": dict(
        text="Verus proves that a step executes no entry found cancelled, discards cancelled heads without re-inserting periodic ones, leaves every other entry untouched, and that a keyed scheduling call returns the key observed by the queued action (units sim, sched).",
        note="the re-check of the flag inside the model (async send_keyed_event) is outside Verus; it is exercised by the bounded stand-in xsched only (real closure against a delivering stub); Kani (complete, loop-free) proves that ActionKey clones / AutoActionKey / the keyed actions and their next occurrences observe one shared flag",
        ref="DESIGN.md §5 C09", tech=TECH_VK + "; bounded executable stand-ins (xsim, xsched) as counterexample generators, labelled bounded"),
    "C10": dict(
        text="Verus proves that every executed periodic entry (time t, period p) has exactly one successor queued at t + p in the same series with the same period, non-periodic and cancelled ones none, and that schedule_*periodic* queue the requested period (units sim, sched).",
        note="tai_time addition assumed exact; Kani (complete, all Durations) proves that {Periodic,KeyedPeriodic}Action::next return the stored period and Once actions have no next",
        ref="DESIGN.md §5 C10", tech=TECH_VK + "; bounded executable stand-ins (xsim, xsched) as counterexample generators, labelled bounded"),
    "C11": dict(
        text="Verus proves the mapping of every ExecutorError value by Simulation::run (Timeout, Panic with model name and payload, NoRecipient for SendError payloads), that every fatal error sets the terminated flag, and that step/step_until/process on a terminated simulation return Terminated without moving the time or entering the executor (unit sim); the ModelId given to each model task indexes that model's own qualified name (unit reg).",
        note="that the executors produce the right ExecutorError is proved for the single-threaded executor's ExecutorInner::run (unit stexec: Panic iff a task panicked, with its model id and payload, whatever the counters say; stand-in xexec supplies concrete scripts); for the multi-threaded executor, unit mtexec proves that Executor::run reports a panic taken out of the pool manager always and as Panic with the registered model and payload, and Timeout only after the abort signal is set and all workers woken; that the workers register the right model id and the timeout thread of the single-threaded executor are not decided; the executor stub may become unusable after a failed run (finding F6), so every public operation must check is_terminated before touching it",
        ref="DESIGN.md §5 C11", tech=TECH_V + "; bounded executable stand-ins (xsim, xreg as counterexample generators and fallback; xexec for the single-threaded executor's report), labelled bounded"),
    "C12": dict(
        text="Kani proves, per capacity (1,2 quick; 1..5 thorough) and for every representation-invariant-satisfying state (any sequence count, fill level, open/closed) - i.e. for histories of any length - the sequential contracts of Queue::{push,pop + MessageBorrow::drop,close,len,next_queue_pos}: never more than capacity messages, FIFO, each message exactly once, len exact, Full only when full, after close pushes fail and accepted messages stay receivable. The concurrency half of the property (linearizability under multi-producer interleavings, no lost wake-ups in channel.rs) is NOT decided.",
        note="sequential execution only (Kani has no threads); capacities enumerated, not symbolic; compare_exchange_weak never fails spuriously. The async Sender::send / Receiver::recv paths and their wake-up pairing are decided only BOUNDED and only for cooperative schedules on one thread: stand-in xchan runs the real channel.rs + queue.rs (stub crates for async_event, diatomic_waker, recycle_box, crossbeam_utils) with two senders and the receiver under every schedule up to the bound - capacity, exactly-once in producer order, length, waiting tasks resumed, close; interleavings of threads inside push / pop are decided only within loom's bound (stand-in lqueue: two producers, two messages each, the consumer, capacities 2 and 3, preemption bound 2 quick / 3 thorough); wake-ups delivered from other threads are not decided",
        ref="DESIGN.md §5 C12", tech="Kani (CBMC) inductive per-operation contract harnesses appended to the real channel/queue.rs; complete per capacity; bounded stand-ins: xchan (send / recv / wake-ups on one thread) and lqueue (loom, push / pop under thread interleavings), labelled bounded"),
    "C14": dict(
        text="Second sentence - PROOF: Verus proves that Output::{connect, connect_sink} and Requestor::connect add exactly one connection to the value shared by all clones (CachedRwLock::write) and that Output::send / Requestor::send broadcast over a copy synchronised with that shared value (unit ports); Kani proves (loop-free, all u32 values) the CachedRwLock contract this rests on: write bumps the shared epoch exactly once and every clone's next read sees the new value; BOUNDED under thread interleavings (stand-in lcrw: loom model checking of the real CachedRwLock, three threads, preemption bound 3): a read that happens after a write returned sees it and a clone's view never goes back. First sentence - BOUNDED only (stand-in xbcast, never counted as proved): the real text of ports/output/broadcaster.rs and util/task_set.rs, driven on one thread with 1..3 scripted repliers (quick; 4 thorough), every accept/filter pattern, every subset replying late, every completion order, spurious and late wake-ups, partially consumed or dropped earlier queries, clones: the query broadcast returns exactly one reply per accepting replier, computed from the request, in connection order, only after all of them replied, and is never left un-woken.",
        note="sequential execution throughout: interleavings of repliers' wake-ups on DIFFERENT threads (the lock-free Treiber stack of TaskSet under the C11 model) are not decided; map/filter_map connect variants (Fn closures) are not under contract; the source-side broadcasters (ports/source) are not covered",
        ref="DESIGN.md §5 C14", tech="Verus contracts on the extracted port wrappers + Kani (CBMC) complete harness appended to the real util/cached_rw_lock.rs; bounded stand-ins: lcrw (loom, the real CachedRwLock under thread interleavings) and xbcast (the query broadcast on one thread), labelled bounded"),
    "C16": dict(
        text="Partly proof, partly bounded, partly undecided. PROOF (Verus, unit reg): every model registered through SimInit::add_model or BuildContext::add_submodel, to any depth, is spawned exactly once as one task whose Context carries the qualified name parent.child (\"<unknown>\" for an empty name), and that same name is what model_names[id] and the observer list report (third sentence); (unit sim) SimInit::init enters the executor exactly once, after the time write and the synchronize, and spawns nothing itself. BOUNDED (stand-in xreg, every hierarchy of up to 4 models, depth <= 3; never counted as proved): the real async model task of simulation::add_model, run through the real SimInit::{add_model, init}, calls each model's init exactly once, during SimInit::init, before that model takes its first message, under the qualified name.",
        note="not decided: that messages sent before a model's init are kept and processed afterwards (mailbox retention is the sequential half of C12; the wake-up path is async), and everything that depends on the executors' schedules; the async block itself is outside Verus (R8), hence the bounded stand-in",
        ref="DESIGN.md §5 C16", tech=TECH_V + " (names, single spawn, init entered once); bounded executable stand-in (xreg) for the async model task, labelled bounded"),
    "C17": dict(
        text="Verus proves, for every capacity, buffer content and event, the contracts of EventBufferWriter::write, EventBuffer::{next,open,close,with_capacity*} and EventSlot{,Writer}::{write,next,open,close,new*} on the text cut from /repo on each run.",
        note="sequentialised (Arc/Mutex/AtomicBool elided; try_lock on the slot assumed uncontended, try_lock on the buffer may answer WouldBlock); vstd VecDeque specs; __try_fold not under contract; last sentence (sending order through one output): only bounded, stand-in xbcast runs the real EventBroadcaster / BroadcastFuture / TaskSet on one thread - each recipient gets each event once, and a broadcast returns only after all recipients took the event, so consecutive sends arrive in sending order; the sink sender itself (EventSinkSender) is not under contract",
        ref="DESIGN.md §5 C17", tech=TECH_V + "; bounded executable stand-ins (xsink: both sink files as they stand, as counterexample generator and fallback; xbcast: the event broadcast), labelled bounded"),
    "C18": dict(
        text="Verus proves that a step to a new time t calls synchronize(t) exactly once after the time write and before Executor::run (ghost run log: the executor is entered with last-synchronised time == t), that OutOfSync is returned exactly when the reported lag exceeds the configured tolerance and then the executor is not entered, that step_until's final jump synchronises on the target, and that SimInit::init synchronises exactly once on the start time before the first executor run (unit sim).",
        note="the clock is only reachable through Simulation (private field); step_until through several times: each new time synchronised exactly once (strictly increasing trace); under concurrent scheduling the monitor pass (simmon) proves that the clock is never synchronised ahead of the published time, hence the times passed to synchronize never decrease",
        ref="DESIGN.md §5 C18", tech=TECH_V + "; bounded executable stand-in (xsim) as counterexample generator and fallback, labelled bounded"),
    "C20": dict(
        text="Verus proves the whole of util/indexed_priority_queue.rs (39 functions: heap order on (key, epoch), slab/heap cross-indexing, extract only through the matching epoch) and util/priority_queue.rs (stable minimum extraction) for every history, generic key type.",
        note="K's Ord is a total preorder obeying its spec; std BinaryHeap contract assumed; derive(PartialOrd) spec generated from the declared field order; panics are divergence",
        ref="DESIGN.md §5 C20", tech=TECH_V + "; bounded executable stand-in (xpq: both real files compiled as they stand, every operation sequence up to the bound) as counterexample generator and fallback, labelled bounded"),
}

NA = {
    "C02": "causal order across concurrently running models is a whole-history property of executor/channel interleavings; no per-call contract expresses it (Kani has no threads, Verus cannot take the real lock-free code)",
    "C03": "decided by the async blocked-sender/wake-up path and task schedules; verifiers accept neither async bodies nor threads (sequential ingredients proved under C01/C12 do not decide it)",
    "C04": "multi-thread idle/park/steal protocol incl. liveness; Kani has no threads, Verus cannot take the real atomics code",
    "C05": "reduces to the single-poller guarantee of the unsafe task state machine under concurrent wakers",
    "C13": "unsafe task state machine; interleavings under the C11 memory model; a sequential bounded Kani run did not finish in 28 min",
    "C15": "tearing/staleness exist only in concurrent executions under the C11 model; a sequential contract is vacuous",
    "C19": "thread joins and cancellation of mutually waking unsafe tasks",
}


def main():
    checks = []
    for pid in sorted(CLAIMS):
        c = CLAIMS[pid]
        checks.append({
            "property_id": pid,
            "quick_cmd": "./check %s --tier quick" % pid,
            "thorough_cmd": "./check %s --tier thorough" % pid,
            "evidence_file": "/verif/evidence/%s.json" % pid,
            "replay_cmd_template": "./check %s --replay {path}" % pid,
            "engine": "vk",
            "level_claimed": {"category": "proof", "text": c["text"], "design_ref": c["ref"]},
            "level_note": c["note"],
            "technique": c["tech"],
        })
    m = {
        "version": 1,
        "setup_cmd": "./setup.sh",
        "hooks": {"guard": "asynchronix_verif", "enable": "RUSTFLAGS='--cfg asynchronix_verif' (only used to replay findings F4 and F8; the proofs extract from unmodified sources)",
                  "baseline_off_cmd": "cd /repo && cargo test --workspace --no-fail-fast --offline", "source_commits": ["a47bf58275e0690da0183f478b76270ded0ebbd7", "c8939aeaa339aae2c0ded1d451ca3dcee517b2b7", "b4009154d7bad07e13c3de16efe425bfb81c288e"], "add_only": True},
        "engines": [{"name": "vk", "path": "/verif/vk", "serves_properties": sorted(CLAIMS),
                     "kind_free_text": "contract templates (/verif/contracts) + mechanical extraction and token merge from /repo + Verus (unbounded) / Kani (complete or bounded, labelled)"}],
        "checks": checks,
        "not_applicable": [{"property_id": k, "reason": v} for k, v in sorted(NA.items()) if k not in CLAIMS],
        "notes": "exit 0 = all obligations mapped to the property discharged; exit 1 + VIOLATION line = an obligation refuted; exit 2 + UNDECIDED line = lost anchor / unsupported construct / rlimit (never an alarm). See DESIGN.md.",
    }
    json.dump(m, open(os.path.join(ROOT, "MANIFEST.json"), "w"), indent=1)


if __name__ == "__main__":
    main()
