#!/bin/sh
# ./seedrun.sh <seeded/dir | file.diff> <props...> : runs the checks of the given properties against a scratch copy of
# /repo with the seed's patch.diff (or the given diff) applied (VK_REPO); /repo itself is not touched.
set -e
cd "$(dirname "$0")"
seed="$1"; shift
d=$(mktemp -d /tmp/vk-seed-XXXXXX)
trap 'rm -rf "$d"' EXIT
mkdir -p "$d/repo"
(cd /repo && tar cf - --exclude=./target --exclude=./.git .) | (cd "$d/repo" && tar xf -)
case "$seed" in *.diff) pf="$seed";; *) pf="$seed/patch.diff";; esac
case "$pf" in /*) ;; *) pf="$PWD/$pf";; esac
(cd "$d/repo" && git apply --recount "$pf" 2>&1 || patch -p1 < "$pf")
VK_REPO="$d/repo" VK_BUILD="$d/build" VK_EVIDENCE="$d/ev" VK_REPLAYS="$d/replays" python3 -m vk.check "$@" || true
