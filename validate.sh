#!/bin/sh
# validates MANIFEST.json and every evidence file against the given schemas
cd "$(dirname "$0")"
python3-vt - <<'PY'
import json,jsonschema,glob
jsonschema.validate(json.load(open('MANIFEST.json')),json.load(open('/root/.vp/MANIFEST.schema.json')))
s=json.load(open('/root/.vp/EVIDENCE.schema.json'))
for f in sorted(glob.glob('evidence/*.json')):
    jsonschema.validate(json.load(open(f)),s); print('ok',f)
print('manifest ok')
PY
