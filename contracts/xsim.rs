//@unit xsim
//@exec
//@props C01,C07,C08,C09,C10,C11,C18
// BOUNDED executable stand-in for the scheduler kernel (labelled bounded, never counted as proved).
// The REAL text of Simulation::{time, step, step_until, process, run, step_to_next_bounded, step_until_unchecked},
// of ModelId, DeadlockInfo, ExecutionError (simulation.rs), of the whole util/priority_queue.rs and of
// util/seq_futures.rs is cut from /repo on every run - with NO rewrite rule at all - and compiled by rustc against the
// executable stubs below (executor that really polls the spawned futures, actions that log their execution, scripted
// clock). `main` enumerates every scenario up to the stated bound, runs the real code on it and compares what happened
// with the property statements. It decides nothing beyond its bound; it is used (a) to find a concrete failing input
// for an obligation Verus refuted, (b) when a restructured function leaves the Verus unit undecided.
#![allow(dead_code, unused_imports, unused_variables, unused_mut, unused_macros, unreachable_code)]
use std::any::{Any, TypeId};
use std::collections::BTreeMap;
use std::future::Future;
use std::{cmp, mem, ptr};
use std::panic;
use std::pin::Pin;
use std::sync::atomic::{AtomicU64, AtomicUsize, Ordering as AtomicOrdering};
use std::sync::{Arc, Mutex, MutexGuard};
use std::task::{Context as TaskContext, Poll, RawWaker, RawWakerVTable, Waker};
use std::time::Duration;

// ------------------------------------------------------------------ executable stubs
#[derive(Copy, Clone, Debug, PartialEq, Eq, PartialOrd, Ord, Hash)]
pub struct MonotonicTime(pub u64); // whole seconds
impl MonotonicTime {
    pub const MAX: MonotonicTime = MonotonicTime(u64::MAX);
    pub const EPOCH: MonotonicTime = MonotonicTime(0);
    // the part of tai_time's API a kernel may reasonably use (whole seconds in this stand-in)
    pub fn checked_add(self, d: Duration) -> Option<Self> {
        self.0.checked_add(d.as_secs()).map(MonotonicTime)
    }
    pub fn checked_sub(self, d: Duration) -> Option<Self> {
        self.0.checked_sub(d.as_secs()).map(MonotonicTime)
    }
    pub fn duration_since(self, earlier: Self) -> Duration {
        Duration::from_secs(self.0.checked_sub(earlier.0).expect("earlier is later"))
    }
    pub fn checked_duration_since(self, earlier: Self) -> Option<Duration> {
        self.0.checked_sub(earlier.0).map(Duration::from_secs)
    }
    pub fn as_secs(&self) -> i64 {
        self.0 as i64
    }
}
impl std::ops::Sub<Duration> for MonotonicTime {
    type Output = MonotonicTime;
    fn sub(self, d: Duration) -> MonotonicTime {
        MonotonicTime(self.0.checked_sub(d.as_secs()).expect("time underflow"))
    }
}
impl std::ops::Add<Duration> for MonotonicTime {
    type Output = MonotonicTime;
    fn add(self, d: Duration) -> MonotonicTime {
        MonotonicTime(self.0.checked_add(d.as_secs()).expect("time overflow"))
    }
}
pub trait Deadline {
    fn into_time(self, now: MonotonicTime) -> MonotonicTime;
}
impl Deadline for Duration {
    fn into_time(self, now: MonotonicTime) -> MonotonicTime {
        now + self
    }
}
impl Deadline for MonotonicTime {
    fn into_time(self, _: MonotonicTime) -> MonotonicTime {
        self
    }
}
#[derive(Copy, Clone, Debug, PartialEq, Eq)]
pub enum SyncStatus {
    Synchronized,
    OutOfSync(Duration),
}
pub trait Clock: Send {
    fn synchronize(&mut self, deadline: MonotonicTime) -> SyncStatus;
}
pub trait ChannelObserver: Send {
    fn len(&self) -> usize;
}
pub struct SendError;

#[derive(Clone)]
pub struct AtomicTime(Arc<AtomicU64>);
impl AtomicTime {
    pub fn new(t: u64) -> Self {
        AtomicTime(Arc::new(AtomicU64::new(t)))
    }
    pub fn read(&self) -> MonotonicTime {
        MonotonicTime(self.0.load(AtomicOrdering::Relaxed))
    }
    pub fn write(&self, t: MonotonicTime) {
        TIME_WRITES.lock().unwrap().push(t.0);
        self.0.store(t.0, AtomicOrdering::Relaxed)
    }
}

// what the run observed
static EXEC_LOG: Mutex<Vec<(u64, u64, u64)>> = Mutex::new(Vec::new()); // (series, occurrence deadline known to the action, time at execution)
static TIME_WRITES: Mutex<Vec<u64>> = Mutex::new(Vec::new());
static SYNC_LOG: Mutex<Vec<u64>> = Mutex::new(Vec::new());
static RUNS: AtomicUsize = AtomicUsize::new(0);
static FUEL: AtomicUsize = AtomicUsize::new(0);

fn burn() {
    // every queue operation burns fuel: a scenario that runs out of fuel does not terminate (C08)
    if FUEL.fetch_sub(1, AtomicOrdering::Relaxed) == 0 {
        panic!("OUT-OF-FUEL");
    }
}

pub type SchedulerQueue = PriorityQueue<(MonotonicTime, usize), Action>;

/// A scheduled action: logs (series, its own deadline, the simulation time) when its future runs and may then schedule
/// a follow-up event `resched` seconds later on the same origin (a handler that schedules).
pub struct Action {
    pub series: u64,
    pub deadline: Arc<AtomicU64>, // the deadline of THIS occurrence (set by whoever queues it)
    pub cancelled: Arc<AtomicU64>,
    pub period: Option<Duration>,
    pub resched: u64,
    pub origin: usize,
    pub pend: bool,   // the future returns Pending on its first poll (a send that has to wait for mailbox space)
    pub env: Env,
}
#[derive(Clone)]
pub struct Env {
    pub queue: Arc<Mutex<SchedulerQueue>>,
    pub time: AtomicTime,
}
impl Action {
    pub(crate) fn is_cancelled(&self) -> bool {
        self.cancelled.load(AtomicOrdering::Relaxed) != 0
    }
    pub(crate) fn next(&self) -> Option<(Action, Duration)> {
        self.period.map(|p| {
            (
                Action {
                    series: self.series,
                    // the next occurrence is due one period after this one
                    deadline: Arc::new(AtomicU64::new(self.deadline.load(AtomicOrdering::Relaxed) + p.as_secs())),
                    cancelled: self.cancelled.clone(),
                    period: self.period,
                    resched: self.resched,
                    origin: self.origin,
                    pend: self.pend,
                    env: self.env.clone(),
                },
                p,
            )
        })
    }
    pub(crate) fn into_future(self) -> Pin<Box<dyn Future<Output = ()> + Send>> {
        let mut pending_left = self.pend as u8;
        let mut this = Some(self);
        Box::pin(std::future::poll_fn(move |_cx| {
            if pending_left > 0 {
                pending_left -= 1;
                return Poll::Pending;
            }
            let a = this.take().expect("action future polled after completion");
            let now = a.env.time.read();
            EXEC_LOG.lock().unwrap().push((a.series, a.deadline.load(AtomicOrdering::Relaxed), now.0));
            if a.resched > 0 {
                // what GlobalScheduler::schedule_from does: validate against the time read under the lock
                let mut q = a.env.queue.lock().unwrap();
                let now = a.env.time.read();
                let t = now + Duration::from_secs(a.resched);
                q.insert(
                    (t, a.origin),
                    Action {
                        series: a.series * 100 + 1,
                        deadline: Arc::new(AtomicU64::new(t.0)),
                        cancelled: Arc::new(AtomicU64::new(0)),
                        period: None,
                        resched: 0,
                        origin: a.origin,
                        pend: false,
                        env: a.env.clone(),
                    },
                );
            }
            Poll::Ready(())
        }))
    }
    pub(crate) fn spawn_and_forget(self, executor: &Executor) {
        executor.spawn_and_forget(self.into_future())
    }
}

pub enum ExecutorError {
    UnprocessedMessages(usize),
    Timeout,
    Panic(ModelId, Box<dyn Any + Send + 'static>),
}
/// An executor that really polls what was spawned, to completion, in FIFO or LIFO task order.
pub struct Executor {
    tasks: Mutex<Vec<Pin<Box<dyn Future<Output = ()> + Send>>>>,
    lifo: bool,
    fail: Mutex<Option<ExecutorError>>,
}
fn noop_waker() -> Waker {
    fn clone(_: *const ()) -> RawWaker {
        RawWaker::new(std::ptr::null(), &VT)
    }
    fn noop(_: *const ()) {}
    static VT: RawWakerVTable = RawWakerVTable::new(clone, noop, noop, noop);
    unsafe { Waker::from_raw(RawWaker::new(std::ptr::null(), &VT)) }
}
impl Executor {
    pub fn new(lifo: bool) -> Self {
        Executor { tasks: Mutex::new(Vec::new()), lifo, fail: Mutex::new(None) }
    }
    pub fn spawn_and_forget<T: Future<Output = ()> + Send + 'static>(&self, fut: T) {
        self.tasks.lock().unwrap().push(Box::pin(fut));
    }
    pub fn run(&mut self, _timeout: Duration) -> Result<(), ExecutorError> {
        RUNS.fetch_add(1, AtomicOrdering::Relaxed);
        let waker = noop_waker();
        let mut cx = TaskContext::from_waker(&waker);
        loop {
            let next = {
                let mut t = self.tasks.lock().unwrap();
                if t.is_empty() {
                    break;
                }
                if self.lifo {
                    t.pop().unwrap()
                } else {
                    t.remove(0)
                }
            };
            let mut f = next;
            loop {
                burn();
                if f.as_mut().poll(&mut cx).is_ready() {
                    break;
                }
            }
        }
        match self.fail.lock().unwrap().take() {
            Some(e) => Err(e),
            None => Ok(()),
        }
    }
}
struct ScriptClock {
    lag: Option<Duration>,
}
impl Clock for ScriptClock {
    fn synchronize(&mut self, deadline: MonotonicTime) -> SyncStatus {
        SYNC_LOG.lock().unwrap().push(deadline.0);
        match self.lag {
            Some(l) => SyncStatus::OutOfSync(l),
            None => SyncStatus::Synchronized,
        }
    }
}
struct FixedObserver(usize);
impl ChannelObserver for FixedObserver {
    fn len(&self) -> usize {
        self.0
    }
}

// ------------------------------------------------------------------ the real text (cut from /repo on every run)
//@item src=nexosim/src/util/priority_queue.rs kind=struct name=Item
//@end
//@item src=nexosim/src/util/priority_queue.rs kind=impl name=`> Ord for Item<K, V>` id=impl-Ord-Item
//@end
//@item src=nexosim/src/util/priority_queue.rs kind=impl name=`> PartialOrd for Item<K, V>` id=impl-PartialOrd-Item
//@end
//@item src=nexosim/src/util/priority_queue.rs kind=impl name=`> Eq for Item<K, V>` id=impl-Eq-Item
//@end
//@item src=nexosim/src/util/priority_queue.rs kind=impl name=`> PartialEq for Item<K, V>` id=impl-PartialEq-Item
//@end
//@item src=nexosim/src/util/priority_queue.rs kind=struct name=PriorityQueue
//@end
//@item src=nexosim/src/util/priority_queue.rs kind=impl name=`<K: Copy \+ Ord, V> PriorityQueue<K, V>` id=impl-PriorityQueue
//@end
use std::cmp::Ordering;
use std::collections::*;

//@item src=nexosim/src/util/seq_futures.rs kind=struct name=SeqFuture
//@end
//@item src=nexosim/src/util/seq_futures.rs kind=impl name=`<F> SeqFuture<F>` id=impl-SeqFuture
//@end
//@item src=nexosim/src/util/seq_futures.rs kind=impl name=`Future for SeqFuture<F>` id=impl-Future-SeqFuture
//@end
use std::task::Context;

#[derive(Copy, Clone, Debug)]
//@item src=nexosim/src/simulation.rs kind=struct name=ModelId
//@end
//@item src=nexosim/src/simulation.rs kind=impl name=`^impl ModelId ` id=impl-ModelId
//@end
#[derive(Clone, Debug, PartialEq, Eq)]
//@item src=nexosim/src/simulation.rs kind=struct name=DeadlockInfo
//@end
//@item src=nexosim/src/simulation.rs kind=enum name=ExecutionError
//@end
//@item src=nexosim/src/simulation.rs kind=struct name=Simulation
//@end
impl Simulation {
//@item src=nexosim/src/simulation.rs kind=fn name=time within=`impl Simulation`
//@end
//@item src=nexosim/src/simulation.rs kind=fn name=step within=`impl Simulation`
//@end
//@item src=nexosim/src/simulation.rs kind=fn name=step_until within=`impl Simulation`
//@end
//@item src=nexosim/src/simulation.rs kind=fn name=process within=`impl Simulation`
//@end
//@item src=nexosim/src/simulation.rs kind=fn name=run within=`impl Simulation`
//@end
//@item src=nexosim/src/simulation.rs kind=fn name=step_to_next_bounded within=`impl Simulation`
//@end
//@item src=nexosim/src/simulation.rs kind=fn name=step_until_unchecked within=`impl Simulation`
//@end
}

// ------------------------------------------------------------------ scenarios, reference semantics, comparison
//@include inc/xsim_harness.rs
