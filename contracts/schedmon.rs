//@unit schedmon
//@props C08,C01
//@define mon
//@verus --rlimit 100 --triggers-mode silent
// Unit schedmon: MONITOR PASS over the five schedule_*_from functions (same text as unit sched): the queue is havocked at
// lock acquisition to any value satisfying queue_inv(queue, time) and every release must re-establish it, so an accepted
// deadline is strictly later than the time AT THE MOMENT OF INSERTION under every interleaving with the stepping thread.
// (functional contracts: unit sched) - request validation in nexosim/src/simulation/scheduler.rs (GlobalScheduler::{time, schedule_from,
// schedule_event_from, schedule_keyed_event_from, schedule_periodic_event_from, schedule_keyed_periodic_event_from})
// and the two Deadline impls of nexosim/src/time.rs.
//@rule PUBSTRUCT :: ^(\s*)(?:pub(?:\(crate\))? )?struct :: \1pub struct :: R7
//@rule PUBCRATE :: pub\(crate\) fn :: pub fn :: R7
//@rule QUEUEFIELD :: Arc<Mutex<SchedulerQueue>> :: SchedulerQueue :: R2
//@rule LOCK :: let mut scheduler_queue = self\.scheduler_queue\.lock\(\)\.unwrap\(\); :: lock_queue(&mut self.scheduler_queue, &mut self.time); :: R1b critical-section entry becomes a stub call (the guard is not bound: see GUARDUSE)
//@rule GUARDUSE :: \bscheduler_queue\.insert\( :: self.scheduler_queue.insert( :: R1b the guard is the queue itself
//@rule MUTSELF :: &self, :: &mut self, :: R2 the handle is made exclusive: the shared queue is reached through Arc<Mutex<..>> in the real code
//@rule WILDPARAM :: \(self, _: MonotonicTime\) :: (self, _now: MonotonicTime) :: R14 wildcard parameter unsupported by Verus
//@rule INTOADDR :: address: impl Into<Address<M>> :: address: A :: R14 impl-Trait argument as a named generic
//@rule GENERICA :: <M, F, T, S>\( :: <M, F, T, S, A: Into<Address<M>>>( :: R14
//@pyrule PUBFIELDS :: pub_fields() :: R7
//@pyrule RET :: name_ret(res) :: R17
//@pyrule CTOR :: abstract_action_ctor() :: R8 construction of the async event-sending future dropped; period / key expressions kept
use vstd::prelude::*;
use vstd::std_specs::cmp::{PartialOrdSpec, PartialOrdSpecImpl, PartialEqSpec, PartialEqSpecImpl};
use core::cmp::Ordering;
use std::time::Duration;
verus! {

#[verifier::external_body]
fn vpanic() -> ! { panic!() }

//@include inc/time_stubs.rs
//@include inc/queue_stubs.rs

pub assume_specification [Duration::is_zero] (d: &Duration) -> (r: bool)
    ensures r == (dur_ns(*d) == 0);

impl Deadline for Duration {
    open spec fn into_time_spec(self, now: MonotonicTime) -> MonotonicTime { time_add(now, self) }
//@item src=nexosim/src/time.rs kind=fn name=into_time within=`impl Deadline for std::time::Duration` id=Duration::into_time
    fn into_time(self, now: MonotonicTime) -> MonotonicTime {
        now + self
    }
//@end
}
impl Deadline for MonotonicTime {
    open spec fn into_time_spec(self, now: MonotonicTime) -> MonotonicTime { self }
//@item src=nexosim/src/time.rs kind=fn name=into_time within=`impl Deadline for MonotonicTime` id=MonotonicTime::into_time rules=WILDPARAM
    fn into_time(self, _now: MonotonicTime) -> MonotonicTime {
        self
    }
//@end
}

#[verifier::external_body]
pub struct AtomicTimeReader { x: u8 }
impl AtomicTimeReader {
    pub uninterp spec fn val(&self) -> u64;
    #[verifier::external_body]
    pub fn read(&self) -> (r: MonotonicTime) ensures r.t == self.val() { unimplemented!() }
}

// acquisition: whatever other threads (the stepping thread, other schedulers) left behind
#[verifier::external_body]
// and the stepping thread may have advanced the time since this thread last looked at it
#[verifier::external_body]
fn lock_queue(q: &mut SchedulerQueue, time: &mut AtomicTimeReader)
    requires !old(q).locked(),                //@ C08 #lock-not-taken-twice
    ensures final(q).locked(), final(time).val() >= old(time).val(), queue_inv(final(q).view(), final(time).val()),
{ }
// release: the invariant must hold again
#[verifier::external_body]
fn unlock_queue(q: &mut SchedulerQueue, time: &AtomicTimeReader)
    requires
        old(q).locked(),                      //@ C08 #unlock-only-when-held
        queue_inv(old(q).view(), time.val()),      //@ C08,C01 #invariant-at-release
    ensures !final(q).locked(),
{ }

// ---- abstract constructors of the four action kinds (R8) ----
pub trait Model: Sized {}
pub trait InputFn<'a, M: Model, T, S>: Send + 'static {}
#[verifier::external_body]
#[verifier::reject_recursive_types(M)]
pub struct Address<M: Model> { x: core::marker::PhantomData<M> }
#[verifier::external_body]
pub struct ActionKey { x: u8 }
impl ActionKey {
    pub uninterp spec fn id(&self) -> int;          // identity of the shared cancellation flag
    #[verifier::external_body]
    pub fn new() -> (r: Self) { unimplemented!() }
    #[verifier::external_body]
    pub fn clone(&self) -> (r: Self) ensures r.id() == self.id() { unimplemented!() }
}
// which async sender function an action's future is built from (R8 keeps this marker)
pub enum Via { SendKeyedEvent, ProcessEvent, Inline, Other }
impl Action {
    pub uninterp spec fn key_id(&self) -> Option<int>;   // Some(id) for keyed actions
    // the event is delivered through `send_keyed_event`, whose handler closure re-checks the key when the
    // model starts processing the message (ASSUMED from its 4-line body: `if !event_key.is_cancelled() { call }`)
    pub uninterp spec fn model_rechecks_key(&self) -> bool;
}
#[verifier::external_body]
fn mk_OnceAction<F, T, A>(func: F, arg: T, address: A, via: Via) -> (a: Action)
    ensures a.period() is None, a.key_id() is None, a.model_rechecks_key() == (via is SendKeyedEvent),
{ unimplemented!() }
#[verifier::external_body]
fn mk_KeyedOnceAction<F, T, A>(func: F, arg: T, address: A, key: ActionKey, via: Via) -> (a: Action)
    ensures a.period() is None, a.key_id() == Some(key.id()), a.model_rechecks_key() == (via is SendKeyedEvent),
{ unimplemented!() }
#[verifier::external_body]
fn mk_PeriodicAction<F, T, A>(func: F, arg: T, address: A, period: Duration, via: Via) -> (a: Action)
    ensures a.period() == Some(dur_ns(period)), a.key_id() is None, a.model_rechecks_key() == (via is SendKeyedEvent),
{ unimplemented!() }
#[verifier::external_body]
fn mk_KeyedPeriodicAction<F, T, A>(func: F, arg: T, address: A, period: Duration, key: ActionKey, via: Via) -> (a: Action)
    ensures a.period() == Some(dur_ns(period)), a.key_id() == Some(key.id()), a.model_rechecks_key() == (via is SendKeyedEvent),
{ unimplemented!() }

//@item src=nexosim/src/simulation/scheduler.rs kind=enum name=SchedulingError
pub enum SchedulingError {
    InvalidScheduledTime,
    NullRepetitionPeriod,
}
//@end

//@item src=nexosim/src/simulation/scheduler.rs kind=struct name=GlobalScheduler rules=PUBSTRUCT,QUEUEFIELD,PUBFIELDS
pub struct GlobalScheduler {
    pub scheduler_queue: SchedulerQueue,
    pub time: AtomicTimeReader,
}
//@end

// the state every scheduling request sees inside its critical section
pub open spec fn queue_inv(q: Seq<Entry>, now: u64) -> bool {
    sorted(q) && all_later(q, now) && no_zero_period(q)
}
// an accepted request: exactly one new entry, keyed (deadline, origin), everything else untouched
pub open spec fn accepted(q0: Seq<Entry>, q1: Seq<Entry>, e: Entry) -> bool {
    exists|p: int| 0 <= p <= q0.len() && q1 == #[trigger] q0.insert(p, e)
}
pub proof fn lemma_insert_keeps_inv(q0: Seq<Entry>, q1: Seq<Entry>, e: Entry, now: u64)
    requires
        queue_inv(q0, now), accepted(q0, q1, e), sorted(q1),   //@ C08,C01 #insertion-keeps-the-invariant
        e.time > now,                   //@ C08,C01 #deadline-strictly-in-the-future
        e.period != Some(0nat),         //@ C08 #period-non-zero
    ensures queue_inv(q1, now)
{
    let p = choose|p: int| 0 <= p <= q0.len() && q1 == #[trigger] q0.insert(p, e);
    assert forall|i: int| 0 <= i < q1.len() implies (#[trigger] q1[i]).time > now && q1[i].period != Some(0nat) by {
        if i < p { assert(q1[i] == q0[i]); } else if i == p { } else { assert(q1[i] == q0[i - 1]); }
    }
}

impl GlobalScheduler {
//@item src=nexosim/src/simulation/scheduler.rs kind=fn name=time within=`impl GlobalScheduler` rules=PUBCRATE,RET
    pub fn time(&self) -> (res: MonotonicTime)
        //@[
        ensures res.t == self.time.val()
        //@]
    {
        self.time.read()
    }
//@end

//@item src=nexosim/src/simulation/scheduler.rs kind=fn name=schedule_from within=`impl GlobalScheduler` rules=PUBCRATE,MUTSELF,LOCK,GUARDUSE,RET canary=1
    pub fn schedule_from(
        &mut self,
        deadline: impl Deadline,
        action: Action,
        origin_id: usize,
    ) -> (res: Result<(), SchedulingError>)
        //@[
        requires
            !old(self).scheduler_queue.locked(),
        ensures
            // the guard is dropped at every exit of the function (Rust): if the lock is held there, the invariant must hold
            final(self).scheduler_queue.locked() ==> queue_inv(final(self).scheduler_queue.view(), final(self).time.val()),   //@ C08,C01 #invariant-at-release
            final(self).time.val() >= old(self).time.val(),
        //@]
    {
        // The scheduler queue must always be locked when reading the time,
        // otherwise the following race could occur:
        // 1) this method reads the time and concludes that it is not too late
        //    to schedule the action,
        // 2) the `Simulation` object takes the lock, increments simulation time
        //    and runs the simulation step,
        // 3) this method takes the lock and schedules the now-outdated action.
        //
        // A periodic action with a null period would be re-scheduled at its own
        // deadline forever.
        if let Some((_, period)) = action.next() {
            if period.is_zero() {
                return Err(SchedulingError::NullRepetitionPeriod);
            }
        }
        lock_queue(&mut self.scheduler_queue, &mut self.time);

        let now = self.time();
        let time = deadline.into_time(now);
        if now >= time {
            return Err(SchedulingError::InvalidScheduledTime);
        }

        let ghost q0 = self.scheduler_queue.view();   //@
        self.scheduler_queue.insert((time, origin_id), action);
        //@[
        proof {
            lemma_insert_keeps_inv(q0, self.scheduler_queue.view(), entry_of((time, origin_id), action), self.time.val());
        }
        //@]

        Ok(())
    }
//@end

//@item src=nexosim/src/simulation/scheduler.rs kind=fn name=schedule_event_from within=`impl GlobalScheduler` rules=PUBCRATE,MUTSELF,INTOADDR,GENERICA,CTOR,LOCK,GUARDUSE,RET
    pub fn schedule_event_from<M, F, T, S, A: Into<Address<M>>>(
        &mut self,
        deadline: impl Deadline,
        func: F,
        arg: T,
        address: A,
        origin_id: usize,
    ) -> (res: Result<(), SchedulingError>)
    where
        M: Model,
        F: for<'a> InputFn<'a, M, T, S>,
        T: Send + Clone + 'static,
        S: Send + 'static,
        //@[
        requires
            !old(self).scheduler_queue.locked(),
        ensures
            // the guard is dropped at every exit of the function (Rust): if the lock is held there, the invariant must hold
            final(self).scheduler_queue.locked() ==> queue_inv(final(self).scheduler_queue.view(), final(self).time.val()),   //@ C08,C01 #invariant-at-release
            final(self).time.val() >= old(self).time.val(),
        //@]
    {
        let action = mk_OnceAction(func, arg, address, Via::ProcessEvent);

        // The scheduler queue must always be locked when reading the time (see
        // `schedule_from`).
        lock_queue(&mut self.scheduler_queue, &mut self.time);
        let now = self.time();
        let time = deadline.into_time(now);
        if now >= time {
            return Err(SchedulingError::InvalidScheduledTime);
        }

        let ghost q0 = self.scheduler_queue.view();   //@
        self.scheduler_queue.insert((time, origin_id), action);
        //@[
        proof {
            lemma_insert_keeps_inv(q0, self.scheduler_queue.view(), entry_of((time, origin_id), action), self.time.val());
        }
        //@]

        Ok(())
    }
//@end

//@item src=nexosim/src/simulation/scheduler.rs kind=fn name=schedule_keyed_event_from within=`impl GlobalScheduler` rules=PUBCRATE,MUTSELF,INTOADDR,GENERICA,CTOR,LOCK,GUARDUSE,RET
    pub fn schedule_keyed_event_from<M, F, T, S, A: Into<Address<M>>>(
        &mut self,
        deadline: impl Deadline,
        func: F,
        arg: T,
        address: A,
        origin_id: usize,
    ) -> (res: Result<ActionKey, SchedulingError>)
    where
        M: Model,
        F: for<'a> InputFn<'a, M, T, S>,
        T: Send + Clone + 'static,
        S: Send + 'static,
        //@[
        requires
            !old(self).scheduler_queue.locked(),
        ensures
            // the guard is dropped at every exit of the function (Rust): if the lock is held there, the invariant must hold
            final(self).scheduler_queue.locked() ==> queue_inv(final(self).scheduler_queue.view(), final(self).time.val()),   //@ C08,C01 #invariant-at-release
            final(self).time.val() >= old(self).time.val(),
        //@]
    {
        let event_key = ActionKey::new();
        let action = mk_KeyedOnceAction(func, arg, address, event_key.clone(), Via::SendKeyedEvent);

        // The scheduler queue must always be locked when reading the time (see
        // `schedule_from`).
        lock_queue(&mut self.scheduler_queue, &mut self.time);
        let now = self.time();
        let time = deadline.into_time(now);
        if now >= time {
            return Err(SchedulingError::InvalidScheduledTime);
        }

        let ghost q0 = self.scheduler_queue.view();   //@
        self.scheduler_queue.insert((time, origin_id), action);
        //@[
        proof {
            lemma_insert_keeps_inv(q0, self.scheduler_queue.view(), entry_of((time, origin_id), action), self.time.val());
        }
        //@]

        Ok(event_key)
    }
//@end

//@item src=nexosim/src/simulation/scheduler.rs kind=fn name=schedule_periodic_event_from within=`impl GlobalScheduler` rules=PUBCRATE,MUTSELF,INTOADDR,GENERICA,CTOR,LOCK,GUARDUSE,RET
    pub fn schedule_periodic_event_from<M, F, T, S, A: Into<Address<M>>>(
        &mut self,
        deadline: impl Deadline,
        period: Duration,
        func: F,
        arg: T,
        address: A,
        origin_id: usize,
    ) -> (res: Result<(), SchedulingError>)
    where
        M: Model,
        F: for<'a> InputFn<'a, M, T, S> + Clone,
        T: Send + Clone + 'static,
        S: Send + 'static,
        //@[
        requires
            !old(self).scheduler_queue.locked(),
        ensures
            // the guard is dropped at every exit of the function (Rust): if the lock is held there, the invariant must hold
            final(self).scheduler_queue.locked() ==> queue_inv(final(self).scheduler_queue.view(), final(self).time.val()),   //@ C08,C01 #invariant-at-release
            final(self).time.val() >= old(self).time.val(),
        //@]
    {
        if period.is_zero() {
            return Err(SchedulingError::NullRepetitionPeriod);
        }
        let action = mk_PeriodicAction(func, arg, address, period, Via::ProcessEvent);

        // The scheduler queue must always be locked when reading the time (see
        // `schedule_from`).
        lock_queue(&mut self.scheduler_queue, &mut self.time);
        let now = self.time();
        let time = deadline.into_time(now);
        if now >= time {
            return Err(SchedulingError::InvalidScheduledTime);
        }

        let ghost q0 = self.scheduler_queue.view();   //@
        self.scheduler_queue.insert((time, origin_id), action);
        //@[
        proof {
            lemma_insert_keeps_inv(q0, self.scheduler_queue.view(), entry_of((time, origin_id), action), self.time.val());
        }
        //@]

        Ok(())
    }
//@end

//@item src=nexosim/src/simulation/scheduler.rs kind=fn name=schedule_keyed_periodic_event_from within=`impl GlobalScheduler` rules=PUBCRATE,MUTSELF,INTOADDR,GENERICA,CTOR,LOCK,GUARDUSE,RET
    pub fn schedule_keyed_periodic_event_from<M, F, T, S, A: Into<Address<M>>>(
        &mut self,
        deadline: impl Deadline,
        period: Duration,
        func: F,
        arg: T,
        address: A,
        origin_id: usize,
    ) -> (res: Result<ActionKey, SchedulingError>)
    where
        M: Model,
        F: for<'a> InputFn<'a, M, T, S> + Clone,
        T: Send + Clone + 'static,
        S: Send + 'static,
        //@[
        requires
            !old(self).scheduler_queue.locked(),
        ensures
            // the guard is dropped at every exit of the function (Rust): if the lock is held there, the invariant must hold
            final(self).scheduler_queue.locked() ==> queue_inv(final(self).scheduler_queue.view(), final(self).time.val()),   //@ C08,C01 #invariant-at-release
            final(self).time.val() >= old(self).time.val(),
        //@]
    {
        if period.is_zero() {
            return Err(SchedulingError::NullRepetitionPeriod);
        }
        let event_key = ActionKey::new();
        let action = mk_KeyedPeriodicAction(func, arg, address, period, event_key.clone(), Via::SendKeyedEvent);

        // The scheduler queue must always be locked when reading the time (see
        // `schedule_from`).
        lock_queue(&mut self.scheduler_queue, &mut self.time);
        let now = self.time();
        let time = deadline.into_time(now);
        if now >= time {
            return Err(SchedulingError::InvalidScheduledTime);
        }

        let ghost q0 = self.scheduler_queue.view();   //@
        self.scheduler_queue.insert((time, origin_id), action);
        //@[
        proof {
            lemma_insert_keeps_inv(q0, self.scheduler_queue.view(), entry_of((time, origin_id), action), self.time.val());
        }
        //@]

        Ok(event_key)
    }
//@end

}

} // verus!
fn main() {}
