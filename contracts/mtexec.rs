//@unit mtexec
//@props C06,C11
//@verus --rlimit 100 --triggers-mode silent
// Unit mtexec: what the MULTI-THREADED executor reports at the end of a run - `Executor::run` of executor/mt_executor.rs,
// the function on the thread that drives the simulation; for every sequence of what that thread can observe of the worker
// pool (unbounded: the park loop is under an invariant, the observations are arbitrary).
// C06: Ok only after the pool was seen idle - with no parking in between - and the global in-flight count read AFTER that
// observation was zero; UnprocessedMessages(n) only with exactly that count, n > 0. A count read before the pool was seen
// idle (workers still fold their thread counts into it) is not accepted.
// C11: a panic taken out of the pool manager is always reported as Panic with the model id and payload it was registered
// with, and nothing else is reported as Panic; Timeout is reported only for a non-zero timeout that really elapsed, and only
// after the abort signal was set and every worker woken, so that no model code keeps running behind a terminated simulation.
// What is NOT here (threads): that the workers fold their thread-local counts into the global count BEFORE the pool looks
// idle (assumption A-mt of `load_msg_count`; it was false until the fix of finding F8, DESIGN §7), the pool manager's bit set, the parker.
// Sharing elided (R2): `Arc<ExecutorContext>` is a plain field and the observed components take `&mut self` so that they
// can carry a ghost record of what was observed. The parker calls are lifted to the executor (rule PARK) because parking is
// the point where the workers run: the stub forgets everything observed about the pool.
//@rule LOADCOUNT :: self\.context\.msg_count\.load\(Ordering::Relaxed\) :: self.context.load_msg_count() :: R3 relaxed atomic read of the global count through a stub that knows whether the pool was seen idle before it
//@rule PARK :: self\.parker\.park\(\) :: self.park() :: R2 parking lets the workers run: lifted to the executor so that the stub can forget what was observed of the pool
//@rule PARKT :: self\.parker\.park_timeout\(timeout\) :: self.park_timeout(timeout) :: R2
//@rule TRYINTO :: (\b\w+(?:\.\w+)*)\.try_into\(\)\.unwrap\(\) :: isize_to_usize_or_panic(\1) :: R6 TryFrom<isize> for usize through a specified stub (a negative count panics = divergence)
//@rule HOOK :: #\[cfg\(asynchronix_verif\)\]\s*crate::verif_hooks::pause_point\([^)]*\); ::  :: R19 verification-only pause points are no-ops without an installed callback
//@rule PUBCRATE :: pub\(crate\) fn run :: fn run :: R7
//@pyrule RET :: name_ret(res) :: R17
use vstd::prelude::*;
verus! {

#[verifier::external_body]
fn vpanic() -> ! { panic!() }

#[verifier::external_body]
pub struct Payload { x: u8 }
impl Payload { pub uninterp spec fn id(&self) -> int; }
#[derive(Copy, Clone)]
pub struct ModelId(pub usize);
pub enum ExecutorError { UnprocessedMessages(usize), Timeout, Panic(ModelId, Payload) }

#[derive(Copy, Clone)]
pub struct Duration { pub nanos: u64 }
impl Duration {
    pub fn is_zero(&self) -> (r: bool) ensures r == (self.nanos == 0) { self.nanos == 0 }
}

// `x.try_into().unwrap()` for isize -> usize: the value when it is non-negative, a panic otherwise
fn isize_to_usize_or_panic(x: isize) -> (r: usize)
    ensures x >= 0, r as int == x as int
{ if x < 0 { vpanic() } else { x as usize } }

// What the driving thread has observed of the pool (ghost record; the real PoolManager is a lock-free bit set + a mutex)
pub struct PoolManager {
    pub seen_idle: Ghost<bool>,                       // pool_is_idle() returned true and this thread has not parked since
    pub taken: Ghost<Option<(ModelId, int)>>,         // the panic take_panic() handed out during this call, if any
    pub worker_activated: Ghost<bool>,
    pub all_activated: Ghost<bool>,
}
impl PoolManager {
    #[verifier::external_body]
    pub fn activate_worker(&mut self)
        ensures !final(self).seen_idle@, final(self).worker_activated@, final(self).taken == old(self).taken,
            final(self).all_activated == old(self).all_activated,
    { unimplemented!() }
    #[verifier::external_body]
    pub fn activate_all_workers(&mut self)
        ensures final(self).all_activated@, !final(self).seen_idle@, final(self).taken == old(self).taken,
            final(self).worker_activated == old(self).worker_activated,
    { unimplemented!() }
    // Mutex<Option<(ModelId, Box<dyn Any>)>>::take
    #[verifier::external_body]
    pub fn take_panic(&mut self) -> (r: Option<(ModelId, Payload)>)
        ensures
            r matches Some(mp) ==> final(self).taken@ == Some((mp.0, mp.1.id())),
            r is None ==> final(self).taken == old(self).taken,
            final(self).seen_idle == old(self).seen_idle, final(self).worker_activated == old(self).worker_activated,
            final(self).all_activated == old(self).all_activated,
    { unimplemented!() }
    // Acquire load of the active-worker bit set == 0. Once true it stays true until this thread wakes a worker or parks.
    #[verifier::external_body]
    pub fn pool_is_idle(&mut self) -> (r: bool)
        ensures final(self).seen_idle@ == r, final(self).taken == old(self).taken,
            final(self).worker_activated == old(self).worker_activated, final(self).all_activated == old(self).all_activated,
    { unimplemented!() }
}

pub struct ExecutorContext { pub pool_manager: PoolManager, pub last_read: Ghost<int>, pub read_while_idle: Ghost<bool> }
impl ExecutorContext {
    // sent minus received over all threads once every worker is parked. ASSUMPTION A-mt: a worker folds its thread-local
    // count into the global counter before the pool can look idle to this thread, so that a read made after the pool was
    // seen idle returns this number. A read made earlier returns anything.
    pub uninterp spec fn quiescent_count(&self) -> int;
    #[verifier::external_body]
    pub fn load_msg_count(&mut self) -> (v: isize)
        ensures
            final(self).pool_manager == old(self).pool_manager,
            final(self).quiescent_count() == old(self).quiescent_count(),
            final(self).last_read@ == v as int,
            final(self).read_while_idle@ == old(self).pool_manager.seen_idle@,
            old(self).pool_manager.seen_idle@ ==> v as int == old(self).quiescent_count(),
    { unimplemented!() }
}

pub struct Signal { pub is_set: Ghost<bool> }
impl Signal {
    #[verifier::external_body]
    pub fn set(&mut self) ensures final(self).is_set@ { unimplemented!() }
}
pub struct Parker { pub timed_out: Ghost<bool> }

pub struct Executor { pub context: ExecutorContext, pub parker: Parker, pub abort_signal: Signal }

impl Executor {
    // Parker::park: blocks until unparked. While this thread is parked the workers run: nothing observed of the pool
    // survives, except what this thread itself took out (the panic) or set (abort signal, wake-all).
    #[verifier::external_body]
    fn park(&mut self)
        ensures
            !final(self).context.pool_manager.seen_idle@,
            final(self).context.pool_manager.taken == old(self).context.pool_manager.taken,
            final(self).context.pool_manager.all_activated == old(self).context.pool_manager.all_activated,
            final(self).abort_signal == old(self).abort_signal,
            final(self).parker == old(self).parker,
    { unimplemented!() }
    // Parker::park_timeout: false when the timeout elapsed without an unpark
    #[verifier::external_body]
    fn park_timeout(&mut self, timeout: Duration) -> (r: bool)
        ensures
            !final(self).context.pool_manager.seen_idle@,
            final(self).context.pool_manager.taken == old(self).context.pool_manager.taken,
            final(self).context.pool_manager.all_activated == old(self).context.pool_manager.all_activated,
            final(self).abort_signal == old(self).abort_signal,
            final(self).parker.timed_out@ == !r,
    { unimplemented!() }

//@item src=nexosim/src/executor/mt_executor.rs kind=fn name=run within=`impl Executor` rules=HOOK,LOADCOUNT,PARK,PARKT,TRYINTO,PUBCRATE,RET canary=1
    #[verifier::exec_allows_no_decreases_clause]   //@ the park loop ends when the workers say so: liveness of the pool (C04) is not in this family's reach
    fn run(&mut self, timeout: Duration) -> (res: Result<(), ExecutorError>)
        //@[
        requires
            old(self).context.pool_manager.taken@ is None,
            !old(self).parker.timed_out@,
        ensures
            // C11: a panic taken out of the pool manager is reported, as Panic, with the model and payload registered
            (res matches Err(ExecutorError::Panic(_, _))) == (final(self).context.pool_manager.taken@ is Some),                                       //@ C11 #taken-panic-is-reported-and-only-that
            res matches Err(ExecutorError::Panic(m, p)) ==> final(self).context.pool_manager.taken@ == Some((m, p.id())),                              //@ C11 #panic-names-the-registered-model-and-payload
            // C11: Timeout only for a non-zero timeout that elapsed, and the workers are told to stop before it is reported
            res matches Err(ExecutorError::Timeout) ==> timeout.nanos != 0 && final(self).parker.timed_out@,                                         //@ C11 #timeout-only-when-it-elapsed
            res matches Err(ExecutorError::Timeout) ==> final(self).abort_signal.is_set@ && final(self).context.pool_manager.all_activated@,          //@ C11 #timeout-aborts-the-workers
            // C06: Ok / UnprocessedMessages only on a pool seen idle, from a count read after that observation
            (res is Ok || res matches Err(ExecutorError::UnprocessedMessages(_))) ==> final(self).context.pool_manager.seen_idle@,                     //@ C06 #result-only-from-an-idle-pool
            (res is Ok || res matches Err(ExecutorError::UnprocessedMessages(_))) ==> final(self).context.read_while_idle@,                            //@ C06 #count-read-after-the-pool-was-seen-idle
            res is Ok ==> final(self).context.quiescent_count() == 0,                                                                                 //@ C06 #ok-exactly-when-everything-was-processed
            res matches Err(ExecutorError::UnprocessedMessages(n)) ==> n > 0 && n as int == final(self).context.quiescent_count(),                     //@ C06 #unprocessed-count-exact
        //@]
    {
        self.context.pool_manager.activate_worker();

        loop
            //@[
            invariant
                self.context.pool_manager.taken@ is None,
                !self.parker.timed_out@,
            //@]
        {
            if let Some((model_id, payload)) = self.context.pool_manager.take_panic() {
                return Err(ExecutorError::Panic(model_id, payload));
            }

            if self.context.pool_manager.pool_is_idle() {
                let msg_count = self.context.load_msg_count();
                if msg_count != 0 {
                    let msg_count: usize = isize_to_usize_or_panic(msg_count);

                    return Err(ExecutorError::UnprocessedMessages(msg_count));
                }

                return Ok(());
            }

            if timeout.is_zero() {
                self.park();
            } else if !self.park_timeout(timeout) {
                // A timeout occurred: request all worker threads to return
                // as soon as possible.
                self.abort_signal.set();
                self.context.pool_manager.activate_all_workers();

                return Err(ExecutorError::Timeout);
            }
        }
    }
//@end
}

} // verus!
fn main() {}
