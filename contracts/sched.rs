//@unit sched
//@props C08,C01,C10,C09,C07
//@verus --rlimit 100 --triggers-mode silent
// Unit sched: request validation in nexosim/src/simulation/scheduler.rs (GlobalScheduler::{time, schedule_from,
// schedule_event_from, schedule_keyed_event_from, schedule_periodic_event_from, schedule_keyed_periodic_event_from})
// and the two Deadline impls of nexosim/src/time.rs.
//@rule PUBSTRUCT :: ^(\s*)(?:pub(?:\(crate\))? )?struct :: \1pub struct :: R7
//@rule PUBCRATE :: pub\(crate\) fn :: pub fn :: R7
//@rule QUEUEFIELD :: Arc<Mutex<SchedulerQueue>> :: SchedulerQueue :: R2
//@rule LOCK :: let mut scheduler_queue = self\.scheduler_queue\.lock\(\)\.unwrap\(\); :: lock_queue(&mut self.scheduler_queue, &self.time); :: R1b critical-section entry becomes a stub call (the guard is not bound: see GUARDUSE)
//@rule GUARDUSE :: \bscheduler_queue\.insert\( :: self.scheduler_queue.insert( :: R1b the guard is the queue itself
//@rule MUTSELF :: &self, :: &mut self, :: R2 the handle is made exclusive: the shared queue is reached through Arc<Mutex<..>> in the real code
//@rule WILDPARAM :: \(self, _: MonotonicTime\) :: (self, _now: MonotonicTime) :: R14 wildcard parameter unsupported by Verus
//@rule INTOADDR :: address: impl Into<Address<M>> :: address: A :: R14 impl-Trait argument as a named generic
//@rule GENERICA :: <M, F, T, S>\( :: <M, F, T, S, A: Into<Address<M>>>( :: R14
//@rule PUBCONST :: ^const  :: pub const  :: R7
//@rule PUBTUPLE :: \(GlobalScheduler\); :: (pub GlobalScheduler); :: R7
//@rule INTOADDR2 :: address: impl Into<Address<M>>,\n    \) :: address: A,\n    ) :: R14
//@rule CHANID :: address\.0\.channel_id\(\) :: address.channel_id() :: R7 tuple-struct field of a stub type
//@pyrule PUBFIELDS :: pub_fields() :: R7
//@pyrule RET :: name_ret(res) :: R17
//@pyrule CTOR0 :: abstract_action_ctor(-) :: R8 (event sources: the broadcast future is dropped, period / key expressions kept)
//@pyrule ASYNCFUT :: abstract_async_block(fut ;; ()) :: R8
//@rule BCAST :: let fut = self\.broadcaster\.lock\(\)\.unwrap\(\)\.broadcast\(arg\); :: let fut = (); :: R8 the broadcast future is not expressible in Verus
//@rule BCLONE :: let broadcaster = self\.broadcaster\.clone\(\); :: let broadcaster = (); :: R8
//@rule PUBSRC :: ^(\s*)pub struct EventSource<T: Clone \+ Send \+ 'static> \{\n\s*broadcaster: Arc<Mutex<EventBroadcaster<T>>>, :: \1pub struct EventSource<T: Clone + Send + 'static> {\n    pub broadcaster: core::marker::PhantomData<T>, :: R2 the shared broadcaster is not modelled
//@rule ZEROSUF :: \bmk_(\w+Action)\( :: mk_\g<1>0( :: R8 (the event-source variants of the abstract constructors)
//@pyrule CTOR :: abstract_action_ctor() :: R8 construction of the async event-sending future dropped; period / key expressions kept
use vstd::prelude::*;
use vstd::std_specs::cmp::{PartialOrdSpec, PartialOrdSpecImpl, PartialEqSpec, PartialEqSpecImpl};
use core::cmp::Ordering;
use std::time::Duration;
verus! {

#[verifier::external_body]
fn vpanic() -> ! { panic!() }

//@include inc/time_stubs.rs
//@include inc/queue_stubs.rs

pub assume_specification [Duration::is_zero] (d: &Duration) -> (r: bool)
    ensures r == (dur_ns(*d) == 0);

impl Deadline for Duration {
    open spec fn into_time_spec(self, now: MonotonicTime) -> MonotonicTime { time_add(now, self) }
//@item src=nexosim/src/time.rs kind=fn name=into_time within=`impl Deadline for std::time::Duration` id=Duration::into_time
    fn into_time(self, now: MonotonicTime) -> MonotonicTime {
        now + self
    }
//@end
}
impl Deadline for MonotonicTime {
    open spec fn into_time_spec(self, now: MonotonicTime) -> MonotonicTime { self }
//@item src=nexosim/src/time.rs kind=fn name=into_time within=`impl Deadline for MonotonicTime` id=MonotonicTime::into_time rules=WILDPARAM
    fn into_time(self, _now: MonotonicTime) -> MonotonicTime {
        self
    }
//@end
}

#[verifier::external_body]
pub struct AtomicTimeReader { x: u8 }
impl AtomicTimeReader {
    pub uninterp spec fn val(&self) -> u64;
    #[verifier::external_body]
    pub fn read(&self) -> (r: MonotonicTime) ensures r.t == self.val() { unimplemented!() }
}

// Critical section of Mutex<SchedulerQueue> (functional pass: no interference; see unit simmon)
#[verifier::external_body]
fn lock_queue(q: &mut SchedulerQueue, time: &AtomicTimeReader)
    ensures final(q).view() == old(q).view()
{ }

// ---- abstract constructors of the four action kinds (R8) ----
pub trait Model: Sized {}
pub trait InputFn<'a, M: Model, T, S>: Send + 'static {}
#[verifier::external_body]
#[verifier::reject_recursive_types(M)]
pub struct Address<M: Model> { x: core::marker::PhantomData<M> }
#[verifier::external_body]
pub struct ActionKey { x: u8 }
impl ActionKey {
    pub uninterp spec fn id(&self) -> int;          // identity of the shared cancellation flag
    #[verifier::external_body]
    pub fn new() -> (r: Self) { unimplemented!() }
    #[verifier::external_body]
    pub fn clone(&self) -> (r: Self) ensures r.id() == self.id() { unimplemented!() }
}
// which async sender function an action's future is built from (R8 keeps this marker)
pub enum Via { SendKeyedEvent, ProcessEvent, Inline, Other }
impl Action {
    pub uninterp spec fn key_id(&self) -> Option<int>;   // Some(id) for keyed actions
    // the event is delivered through `send_keyed_event`, whose handler closure re-checks the key when the
    // model starts processing the message (ASSUMED from its 4-line body: `if !event_key.is_cancelled() { call }`)
    pub uninterp spec fn model_rechecks_key(&self) -> bool;
}
#[verifier::external_body]
fn mk_OnceAction<F, T, A>(func: F, arg: T, address: A, via: Via) -> (a: Action)
    ensures a.period() is None, a.key_id() is None, a.model_rechecks_key() == (via is SendKeyedEvent),
{ unimplemented!() }
#[verifier::external_body]
fn mk_KeyedOnceAction<F, T, A>(func: F, arg: T, address: A, key: ActionKey, via: Via) -> (a: Action)
    ensures a.period() is None, a.key_id() == Some(key.id()), a.model_rechecks_key() == (via is SendKeyedEvent),
{ unimplemented!() }
#[verifier::external_body]
fn mk_PeriodicAction<F, T, A>(func: F, arg: T, address: A, period: Duration, via: Via) -> (a: Action)
    ensures a.period() == Some(dur_ns(period)), a.key_id() is None, a.model_rechecks_key() == (via is SendKeyedEvent),
{ unimplemented!() }
#[verifier::external_body]
fn mk_KeyedPeriodicAction<F, T, A>(func: F, arg: T, address: A, period: Duration, key: ActionKey, via: Via) -> (a: Action)
    ensures a.period() == Some(dur_ns(period)), a.key_id() == Some(key.id()), a.model_rechecks_key() == (via is SendKeyedEvent),
{ unimplemented!() }

//@item src=nexosim/src/simulation/scheduler.rs kind=enum name=SchedulingError
pub enum SchedulingError {
    InvalidScheduledTime,
    NullRepetitionPeriod,
}
//@end

//@item src=nexosim/src/simulation/scheduler.rs kind=struct name=GlobalScheduler rules=PUBSTRUCT,QUEUEFIELD,PUBFIELDS
pub struct GlobalScheduler {
    pub scheduler_queue: SchedulerQueue,
    pub time: AtomicTimeReader,
}
//@end


//@item src=nexosim/src/simulation/scheduler.rs kind=const name=GLOBAL_SCHEDULER_ORIGIN_ID rules=PUBCONST
pub const GLOBAL_SCHEDULER_ORIGIN_ID: usize = 0;
//@end

//@item src=nexosim/src/simulation/scheduler.rs kind=struct name=Scheduler rules=PUBSTRUCT,PUBTUPLE
pub struct Scheduler(pub GlobalScheduler);
//@end

// the state every scheduling request sees inside its critical section
pub open spec fn queue_inv(q: Seq<Entry>, now: u64) -> bool {
    sorted(q) && all_later(q, now) && no_zero_period(q)
}
// an accepted request: exactly one new entry, keyed (deadline, origin), everything else untouched
pub open spec fn accepted(q0: Seq<Entry>, q1: Seq<Entry>, e: Entry) -> bool {
    exists|p: int| 0 <= p <= q0.len() && q1 == #[trigger] q0.insert(p, e)
}
pub proof fn lemma_insert_keeps_inv(q0: Seq<Entry>, q1: Seq<Entry>, e: Entry, now: u64)
    requires
        queue_inv(q0, now), accepted(q0, q1, e), sorted(q1),   //@ C08,C01 #insertion-keeps-the-invariant
        e.time > now,                   //@ C08,C01 #deadline-strictly-in-the-future
        e.period != Some(0nat),         //@ C08 #period-non-zero
    ensures queue_inv(q1, now)
{
    let p = choose|p: int| 0 <= p <= q0.len() && q1 == #[trigger] q0.insert(p, e);
    assert forall|i: int| 0 <= i < q1.len() implies (#[trigger] q1[i]).time > now && q1[i].period != Some(0nat) by {
        if i < p { assert(q1[i] == q0[i]); } else if i == p { } else { assert(q1[i] == q0[i - 1]); }
    }
}

impl GlobalScheduler {
//@item src=nexosim/src/simulation/scheduler.rs kind=fn name=time within=`impl GlobalScheduler` rules=PUBCRATE,RET
    pub fn time(&self) -> (res: MonotonicTime)
        //@[
        ensures res.t == self.time.val()
        //@]
    {
        self.time.read()
    }
//@end

//@item src=nexosim/src/simulation/scheduler.rs kind=fn name=schedule_from within=`impl GlobalScheduler` rules=PUBCRATE,MUTSELF,LOCK,GUARDUSE,RET canary=1
    pub fn schedule_from(
        &mut self,
        deadline: impl Deadline,
        action: Action,
        origin_id: usize,
    ) -> (res: Result<(), SchedulingError>)
        //@[
        requires
            queue_inv(old(self).scheduler_queue.view(), old(self).time.val()),
        ensures
            final(self).time.val() == old(self).time.val(),
            // C08: a rejected request has no effect
            res is Err ==> final(self).scheduler_queue.view() == old(self).scheduler_queue.view(),                 //@ C08 #rejected-has-no-effect
            // C08: accepted only if the deadline lies strictly after the current time ...
            res is Ok ==> deadline.into_time_spec(MonotonicTime { t: old(self).time.val() }).t > old(self).time.val(),   //@ C08,C01 #deadline-strictly-in-the-future
            // ... and the period, if any, is non-zero
            res is Ok ==> action.period() != Some(0nat),                                                          //@ C08 #period-non-zero
            // an accepted request queues exactly one entry keyed (deadline, origin)
            res is Ok ==> exists|o: usize| #![trigger entry_of((deadline.into_time_spec(MonotonicTime { t: old(self).time.val() }), o), action)] accepted(old(self).scheduler_queue.view(), final(self).scheduler_queue.view(),   //@ C08,C01 #queued-at-its-deadline
                entry_of((deadline.into_time_spec(MonotonicTime { t: old(self).time.val() }), o), action)),             //@ C08,C01 #queued-at-its-deadline
            res is Ok ==> exists|t: MonotonicTime| #![trigger entry_of((t, origin_id), action)] accepted(old(self).scheduler_queue.view(), final(self).scheduler_queue.view(),   //@ C07 #queued-under-its-origin
                entry_of((t, origin_id), action)),                                                                    //@ C07 #queued-under-its-origin
            // and conversely a valid request is accepted
            (deadline.into_time_spec(MonotonicTime { t: old(self).time.val() }).t > old(self).time.val()
                && action.period() != Some(0nat)) ==> res is Ok,                                                  //@ C08 #valid-request-accepted
            sorted(final(self).scheduler_queue.view()),
            all_later(final(self).scheduler_queue.view(), final(self).time.val()),                                //@ C01 #pending-strictly-later
            no_zero_period(final(self).scheduler_queue.view()),                                                   //@ C08 #no-zero-period
        //@]
    {
        // The scheduler queue must always be locked when reading the time,
        // otherwise the following race could occur:
        // 1) this method reads the time and concludes that it is not too late
        //    to schedule the action,
        // 2) the `Simulation` object takes the lock, increments simulation time
        //    and runs the simulation step,
        // 3) this method takes the lock and schedules the now-outdated action.
        //
        // A periodic action with a null period would be re-scheduled at its own
        // deadline forever.
        if let Some((_, period)) = action.next() {
            if period.is_zero() {
                return Err(SchedulingError::NullRepetitionPeriod);
            }
        }
        lock_queue(&mut self.scheduler_queue, &self.time);

        let now = self.time();
        let time = deadline.into_time(now);
        if now >= time {
            return Err(SchedulingError::InvalidScheduledTime);
        }

        let ghost q0 = self.scheduler_queue.view();   //@
        self.scheduler_queue.insert((time, origin_id), action);
        //@[
        proof {
            lemma_insert_keeps_inv(q0, self.scheduler_queue.view(), entry_of((time, origin_id), action), self.time.val());
        }
        //@]

        Ok(())
    }
//@end

//@item src=nexosim/src/simulation/scheduler.rs kind=fn name=schedule_event_from within=`impl GlobalScheduler` rules=PUBCRATE,MUTSELF,INTOADDR,GENERICA,CTOR,LOCK,GUARDUSE,RET
    pub fn schedule_event_from<M, F, T, S, A: Into<Address<M>>>(
        &mut self,
        deadline: impl Deadline,
        func: F,
        arg: T,
        address: A,
        origin_id: usize,
    ) -> (res: Result<(), SchedulingError>)
    where
        M: Model,
        F: for<'a> InputFn<'a, M, T, S>,
        T: Send + Clone + 'static,
        S: Send + 'static,
        //@[
        requires
            queue_inv(old(self).scheduler_queue.view(), old(self).time.val()),
        ensures
            final(self).time.val() == old(self).time.val(),
            res is Err ==> final(self).scheduler_queue.view() == old(self).scheduler_queue.view(),                 //@ C08 #rejected-has-no-effect
            res is Ok ==> deadline.into_time_spec(MonotonicTime { t: old(self).time.val() }).t > old(self).time.val(),   //@ C08,C01 #deadline-strictly-in-the-future
            // an accepted request queues exactly one entry keyed (deadline, origin) carrying the requested period
            res is Ok ==> exists|a: Action, o: usize| #![trigger entry_of((deadline.into_time_spec(MonotonicTime { t: old(self).time.val() }), o), a)] accepted(old(self).scheduler_queue.view(), final(self).scheduler_queue.view(), entry_of((deadline.into_time_spec(MonotonicTime { t: old(self).time.val() }), o), a)),   //@ C08,C01 #queued-at-its-deadline
            res is Ok ==> exists|a: Action, t: MonotonicTime| #![trigger entry_of((t, origin_id), a)] accepted(old(self).scheduler_queue.view(), final(self).scheduler_queue.view(), entry_of((t, origin_id), a)),   //@ C07 #queued-under-its-origin
            res is Ok ==> exists|a: Action, qk: (MonotonicTime, usize)| #![trigger entry_of(qk, a)] a.period() == None::<nat> && accepted(old(self).scheduler_queue.view(), final(self).scheduler_queue.view(), entry_of(qk, a)),   //@ C10 #queued-with-the-requested-period
            res is Ok ==> exists|a: Action, qk: (MonotonicTime, usize)| #![trigger entry_of(qk, a)] a.key_id() is None && accepted(old(self).scheduler_queue.view(), final(self).scheduler_queue.view(), entry_of(qk, a)),   //@ C09 #returned-key-cancels-the-queued-action
            (deadline.into_time_spec(MonotonicTime { t: old(self).time.val() }).t > old(self).time.val()) ==> res is Ok,   //@ C08 #valid-request-accepted
            sorted(final(self).scheduler_queue.view()),
            all_later(final(self).scheduler_queue.view(), final(self).time.val()),                                //@ C01 #pending-strictly-later
            no_zero_period(final(self).scheduler_queue.view()),                                                   //@ C08 #no-zero-period
        //@]
    {
        let action = mk_OnceAction(func, arg, address, Via::ProcessEvent);

        // The scheduler queue must always be locked when reading the time (see
        // `schedule_from`).
        lock_queue(&mut self.scheduler_queue, &self.time);
        let now = self.time();
        let time = deadline.into_time(now);
        if now >= time {
            return Err(SchedulingError::InvalidScheduledTime);
        }

        let ghost q0 = self.scheduler_queue.view();   //@
        self.scheduler_queue.insert((time, origin_id), action);
        //@[
        proof {
            lemma_insert_keeps_inv(q0, self.scheduler_queue.view(), entry_of((time, origin_id), action), self.time.val());
        }
        //@]

        Ok(())
    }
//@end

//@item src=nexosim/src/simulation/scheduler.rs kind=fn name=schedule_keyed_event_from within=`impl GlobalScheduler` rules=PUBCRATE,MUTSELF,INTOADDR,GENERICA,CTOR,LOCK,GUARDUSE,RET
    pub fn schedule_keyed_event_from<M, F, T, S, A: Into<Address<M>>>(
        &mut self,
        deadline: impl Deadline,
        func: F,
        arg: T,
        address: A,
        origin_id: usize,
    ) -> (res: Result<ActionKey, SchedulingError>)
    where
        M: Model,
        F: for<'a> InputFn<'a, M, T, S>,
        T: Send + Clone + 'static,
        S: Send + 'static,
        //@[
        requires
            queue_inv(old(self).scheduler_queue.view(), old(self).time.val()),
        ensures
            final(self).time.val() == old(self).time.val(),
            res is Err ==> final(self).scheduler_queue.view() == old(self).scheduler_queue.view(),                 //@ C08 #rejected-has-no-effect
            res is Ok ==> deadline.into_time_spec(MonotonicTime { t: old(self).time.val() }).t > old(self).time.val(),   //@ C08,C01 #deadline-strictly-in-the-future
            // an accepted request queues exactly one entry keyed (deadline, origin) carrying the requested period and observing the returned key
            res is Ok ==> exists|a: Action, o: usize| #![trigger entry_of((deadline.into_time_spec(MonotonicTime { t: old(self).time.val() }), o), a)] accepted(old(self).scheduler_queue.view(), final(self).scheduler_queue.view(), entry_of((deadline.into_time_spec(MonotonicTime { t: old(self).time.val() }), o), a)),   //@ C08,C01 #queued-at-its-deadline
            res is Ok ==> exists|a: Action, t: MonotonicTime| #![trigger entry_of((t, origin_id), a)] accepted(old(self).scheduler_queue.view(), final(self).scheduler_queue.view(), entry_of((t, origin_id), a)),   //@ C07 #queued-under-its-origin
            res is Ok ==> exists|a: Action, qk: (MonotonicTime, usize)| #![trigger entry_of(qk, a)] a.period() == None::<nat> && accepted(old(self).scheduler_queue.view(), final(self).scheduler_queue.view(), entry_of(qk, a)),   //@ C10 #queued-with-the-requested-period
            res matches Ok(k) ==> exists|a: Action, qk: (MonotonicTime, usize)| #![trigger entry_of(qk, a)] a.key_id() == Some(k.id()) && a.model_rechecks_key() && accepted(old(self).scheduler_queue.view(), final(self).scheduler_queue.view(), entry_of(qk, a)),   //@ C09 #returned-key-cancels-the-queued-action-up-to-the-model
            (deadline.into_time_spec(MonotonicTime { t: old(self).time.val() }).t > old(self).time.val()) ==> res is Ok,   //@ C08 #valid-request-accepted
            sorted(final(self).scheduler_queue.view()),
            all_later(final(self).scheduler_queue.view(), final(self).time.val()),                                //@ C01 #pending-strictly-later
            no_zero_period(final(self).scheduler_queue.view()),                                                   //@ C08 #no-zero-period
        //@]
    {
        let event_key = ActionKey::new();
        let action = mk_KeyedOnceAction(func, arg, address, event_key.clone(), Via::SendKeyedEvent);

        // The scheduler queue must always be locked when reading the time (see
        // `schedule_from`).
        lock_queue(&mut self.scheduler_queue, &self.time);
        let now = self.time();
        let time = deadline.into_time(now);
        if now >= time {
            return Err(SchedulingError::InvalidScheduledTime);
        }

        let ghost q0 = self.scheduler_queue.view();   //@
        self.scheduler_queue.insert((time, origin_id), action);
        //@[
        proof {
            lemma_insert_keeps_inv(q0, self.scheduler_queue.view(), entry_of((time, origin_id), action), self.time.val());
        }
        //@]

        Ok(event_key)
    }
//@end

//@item src=nexosim/src/simulation/scheduler.rs kind=fn name=schedule_periodic_event_from within=`impl GlobalScheduler` rules=PUBCRATE,MUTSELF,INTOADDR,GENERICA,CTOR,LOCK,GUARDUSE,RET
    pub fn schedule_periodic_event_from<M, F, T, S, A: Into<Address<M>>>(
        &mut self,
        deadline: impl Deadline,
        period: Duration,
        func: F,
        arg: T,
        address: A,
        origin_id: usize,
    ) -> (res: Result<(), SchedulingError>)
    where
        M: Model,
        F: for<'a> InputFn<'a, M, T, S> + Clone,
        T: Send + Clone + 'static,
        S: Send + 'static,
        //@[
        requires
            queue_inv(old(self).scheduler_queue.view(), old(self).time.val()),
        ensures
            final(self).time.val() == old(self).time.val(),
            res is Err ==> final(self).scheduler_queue.view() == old(self).scheduler_queue.view(),                 //@ C08 #rejected-has-no-effect
            res is Ok ==> deadline.into_time_spec(MonotonicTime { t: old(self).time.val() }).t > old(self).time.val(),   //@ C08,C01 #deadline-strictly-in-the-future
            res is Ok ==> dur_ns(period) != 0,                                                                      //@ C08 #period-non-zero
            dur_ns(period) == 0 ==> (res matches Err(SchedulingError::NullRepetitionPeriod)),                       //@ C08 #zero-period-rejected
            // an accepted request queues exactly one entry keyed (deadline, origin) carrying the requested period
            res is Ok ==> exists|a: Action, o: usize| #![trigger entry_of((deadline.into_time_spec(MonotonicTime { t: old(self).time.val() }), o), a)] accepted(old(self).scheduler_queue.view(), final(self).scheduler_queue.view(), entry_of((deadline.into_time_spec(MonotonicTime { t: old(self).time.val() }), o), a)),   //@ C08,C01 #queued-at-its-deadline
            res is Ok ==> exists|a: Action, t: MonotonicTime| #![trigger entry_of((t, origin_id), a)] accepted(old(self).scheduler_queue.view(), final(self).scheduler_queue.view(), entry_of((t, origin_id), a)),   //@ C07 #queued-under-its-origin
            res is Ok ==> exists|a: Action, qk: (MonotonicTime, usize)| #![trigger entry_of(qk, a)] a.period() == Some(dur_ns(period)) && accepted(old(self).scheduler_queue.view(), final(self).scheduler_queue.view(), entry_of(qk, a)),   //@ C10 #queued-with-the-requested-period
            res is Ok ==> exists|a: Action, qk: (MonotonicTime, usize)| #![trigger entry_of(qk, a)] a.key_id() is None && accepted(old(self).scheduler_queue.view(), final(self).scheduler_queue.view(), entry_of(qk, a)),   //@ C09 #returned-key-cancels-the-queued-action
            (deadline.into_time_spec(MonotonicTime { t: old(self).time.val() }).t > old(self).time.val() && dur_ns(period) != 0) ==> res is Ok,   //@ C08 #valid-request-accepted
            sorted(final(self).scheduler_queue.view()),
            all_later(final(self).scheduler_queue.view(), final(self).time.val()),                                //@ C01 #pending-strictly-later
            no_zero_period(final(self).scheduler_queue.view()),                                                   //@ C08 #no-zero-period
        //@]
    {
        if period.is_zero() {
            return Err(SchedulingError::NullRepetitionPeriod);
        }
        let action = mk_PeriodicAction(func, arg, address, period, Via::ProcessEvent);

        // The scheduler queue must always be locked when reading the time (see
        // `schedule_from`).
        lock_queue(&mut self.scheduler_queue, &self.time);
        let now = self.time();
        let time = deadline.into_time(now);
        if now >= time {
            return Err(SchedulingError::InvalidScheduledTime);
        }

        let ghost q0 = self.scheduler_queue.view();   //@
        self.scheduler_queue.insert((time, origin_id), action);
        //@[
        proof {
            lemma_insert_keeps_inv(q0, self.scheduler_queue.view(), entry_of((time, origin_id), action), self.time.val());
        }
        //@]

        Ok(())
    }
//@end

//@item src=nexosim/src/simulation/scheduler.rs kind=fn name=schedule_keyed_periodic_event_from within=`impl GlobalScheduler` rules=PUBCRATE,MUTSELF,INTOADDR,GENERICA,CTOR,LOCK,GUARDUSE,RET
    pub fn schedule_keyed_periodic_event_from<M, F, T, S, A: Into<Address<M>>>(
        &mut self,
        deadline: impl Deadline,
        period: Duration,
        func: F,
        arg: T,
        address: A,
        origin_id: usize,
    ) -> (res: Result<ActionKey, SchedulingError>)
    where
        M: Model,
        F: for<'a> InputFn<'a, M, T, S> + Clone,
        T: Send + Clone + 'static,
        S: Send + 'static,
        //@[
        requires
            queue_inv(old(self).scheduler_queue.view(), old(self).time.val()),
        ensures
            final(self).time.val() == old(self).time.val(),
            res is Err ==> final(self).scheduler_queue.view() == old(self).scheduler_queue.view(),                 //@ C08 #rejected-has-no-effect
            res is Ok ==> deadline.into_time_spec(MonotonicTime { t: old(self).time.val() }).t > old(self).time.val(),   //@ C08,C01 #deadline-strictly-in-the-future
            res is Ok ==> dur_ns(period) != 0,                                                                      //@ C08 #period-non-zero
            dur_ns(period) == 0 ==> (res matches Err(SchedulingError::NullRepetitionPeriod)),                       //@ C08 #zero-period-rejected
            // an accepted request queues exactly one entry keyed (deadline, origin) carrying the requested period and observing the returned key
            res is Ok ==> exists|a: Action, o: usize| #![trigger entry_of((deadline.into_time_spec(MonotonicTime { t: old(self).time.val() }), o), a)] accepted(old(self).scheduler_queue.view(), final(self).scheduler_queue.view(), entry_of((deadline.into_time_spec(MonotonicTime { t: old(self).time.val() }), o), a)),   //@ C08,C01 #queued-at-its-deadline
            res is Ok ==> exists|a: Action, t: MonotonicTime| #![trigger entry_of((t, origin_id), a)] accepted(old(self).scheduler_queue.view(), final(self).scheduler_queue.view(), entry_of((t, origin_id), a)),   //@ C07 #queued-under-its-origin
            res is Ok ==> exists|a: Action, qk: (MonotonicTime, usize)| #![trigger entry_of(qk, a)] a.period() == Some(dur_ns(period)) && accepted(old(self).scheduler_queue.view(), final(self).scheduler_queue.view(), entry_of(qk, a)),   //@ C10 #queued-with-the-requested-period
            res matches Ok(k) ==> exists|a: Action, qk: (MonotonicTime, usize)| #![trigger entry_of(qk, a)] a.key_id() == Some(k.id()) && a.model_rechecks_key() && accepted(old(self).scheduler_queue.view(), final(self).scheduler_queue.view(), entry_of(qk, a)),   //@ C09 #returned-key-cancels-the-queued-action-up-to-the-model
            (deadline.into_time_spec(MonotonicTime { t: old(self).time.val() }).t > old(self).time.val() && dur_ns(period) != 0) ==> res is Ok,   //@ C08 #valid-request-accepted
            sorted(final(self).scheduler_queue.view()),
            all_later(final(self).scheduler_queue.view(), final(self).time.val()),                                //@ C01 #pending-strictly-later
            no_zero_period(final(self).scheduler_queue.view()),                                                   //@ C08 #no-zero-period
        //@]
    {
        if period.is_zero() {
            return Err(SchedulingError::NullRepetitionPeriod);
        }
        let event_key = ActionKey::new();
        let action = mk_KeyedPeriodicAction(func, arg, address, period, event_key.clone(), Via::SendKeyedEvent);

        // The scheduler queue must always be locked when reading the time (see
        // `schedule_from`).
        lock_queue(&mut self.scheduler_queue, &self.time);
        let now = self.time();
        let time = deadline.into_time(now);
        if now >= time {
            return Err(SchedulingError::InvalidScheduledTime);
        }

        let ghost q0 = self.scheduler_queue.view();   //@
        self.scheduler_queue.insert((time, origin_id), action);
        //@[
        proof {
            lemma_insert_keeps_inv(q0, self.scheduler_queue.view(), entry_of((time, origin_id), action), self.time.val());
        }
        //@]

        Ok(event_key)
    }
//@end

}

impl Scheduler {
//@item src=nexosim/src/simulation/scheduler.rs kind=fn name=schedule within=`impl Scheduler` id=Scheduler::schedule rules=MUTSELF,RET
    pub fn schedule(&mut self, deadline: impl Deadline, action: Action) -> (res: Result<(), SchedulingError>)
        //@[
        requires
            queue_inv(old(self).0.scheduler_queue.view(), old(self).0.time.val()),
        ensures
            final(self).0.time.val() == old(self).0.time.val(),
            res is Err ==> final(self).0.scheduler_queue.view() == old(self).0.scheduler_queue.view(),                                        //@ C08 #rejected-has-no-effect
            res is Ok ==> deadline.into_time_spec(MonotonicTime { t: old(self).0.time.val() }).t > old(self).0.time.val(),      //@ C08,C01 #deadline-strictly-in-the-future
            res is Ok ==> action.period() != Some(0nat),                                                       //@ C08 #period-non-zero
            // requests made through the Scheduler handle carry the global origin                               (C07)
            res is Ok ==> exists|o: usize| #![trigger entry_of((deadline.into_time_spec(MonotonicTime { t: old(self).0.time.val() }), o), action)] accepted(old(self).0.scheduler_queue.view(), final(self).0.scheduler_queue.view(), entry_of((deadline.into_time_spec(MonotonicTime { t: old(self).0.time.val() }), o), action)),   //@ C08,C01 #queued-at-its-deadline
            res is Ok ==> exists|t: MonotonicTime| #![trigger entry_of((t, GLOBAL_SCHEDULER_ORIGIN_ID), action)] accepted(old(self).0.scheduler_queue.view(), final(self).0.scheduler_queue.view(), entry_of((t, GLOBAL_SCHEDULER_ORIGIN_ID), action)),   //@ C07 #queued-with-the-global-origin
            queue_inv(final(self).0.scheduler_queue.view(), final(self).0.time.val()),
        //@]
    {
        self.0
            .schedule_from(deadline, action, GLOBAL_SCHEDULER_ORIGIN_ID)
    }
//@end

//@item src=nexosim/src/simulation/scheduler.rs kind=fn name=schedule_event within=`impl Scheduler` id=Scheduler::schedule_event rules=MUTSELF,INTOADDR,GENERICA,RET
    pub fn schedule_event<M, F, T, S, A: Into<Address<M>>>(
        &mut self,
        deadline: impl Deadline,
        func: F,
        arg: T,
        address: A,
    ) -> (res: Result<(), SchedulingError>)
    where
        M: Model,
        F: for<'a> InputFn<'a, M, T, S>,
        T: Send + Clone + 'static,
        S: Send + 'static,
        //@[
        requires
            queue_inv(old(self).0.scheduler_queue.view(), old(self).0.time.val()),
        ensures
            final(self).0.time.val() == old(self).0.time.val(),
            res is Err ==> final(self).0.scheduler_queue.view() == old(self).0.scheduler_queue.view(),                                        //@ C08 #rejected-has-no-effect
            res is Ok ==> deadline.into_time_spec(MonotonicTime { t: old(self).0.time.val() }).t > old(self).0.time.val(),      //@ C08,C01 #deadline-strictly-in-the-future
            // requests made through the Scheduler handle carry the global origin                               (C07)
            res is Ok ==> exists|a: Action, o: usize| #![trigger entry_of((deadline.into_time_spec(MonotonicTime { t: old(self).0.time.val() }), o), a)] accepted(old(self).0.scheduler_queue.view(), final(self).0.scheduler_queue.view(), entry_of((deadline.into_time_spec(MonotonicTime { t: old(self).0.time.val() }), o), a)),   //@ C08,C01 #queued-at-its-deadline
            res is Ok ==> exists|a: Action, t: MonotonicTime| #![trigger entry_of((t, GLOBAL_SCHEDULER_ORIGIN_ID), a)] accepted(old(self).0.scheduler_queue.view(), final(self).0.scheduler_queue.view(), entry_of((t, GLOBAL_SCHEDULER_ORIGIN_ID), a)),   //@ C07 #queued-with-the-global-origin
            res is Ok ==> exists|a: Action, qk: (MonotonicTime, usize)| #![trigger entry_of(qk, a)] a.period() == None::<nat> && accepted(old(self).0.scheduler_queue.view(), final(self).0.scheduler_queue.view(), entry_of(qk, a)),   //@ C10 #queued-with-the-requested-period
            queue_inv(final(self).0.scheduler_queue.view(), final(self).0.time.val()),
        //@]
    {
        self.0
            .schedule_event_from(deadline, func, arg, address, GLOBAL_SCHEDULER_ORIGIN_ID)
    }
//@end

//@item src=nexosim/src/simulation/scheduler.rs kind=fn name=schedule_keyed_event within=`impl Scheduler` id=Scheduler::schedule_keyed_event rules=MUTSELF,INTOADDR,GENERICA,RET
    pub fn schedule_keyed_event<M, F, T, S, A: Into<Address<M>>>(
        &mut self,
        deadline: impl Deadline,
        func: F,
        arg: T,
        address: A,
    ) -> (res: Result<ActionKey, SchedulingError>)
    where
        M: Model,
        F: for<'a> InputFn<'a, M, T, S>,
        T: Send + Clone + 'static,
        S: Send + 'static,
        //@[
        requires
            queue_inv(old(self).0.scheduler_queue.view(), old(self).0.time.val()),
        ensures
            final(self).0.time.val() == old(self).0.time.val(),
            res is Err ==> final(self).0.scheduler_queue.view() == old(self).0.scheduler_queue.view(),                                        //@ C08 #rejected-has-no-effect
            res is Ok ==> deadline.into_time_spec(MonotonicTime { t: old(self).0.time.val() }).t > old(self).0.time.val(),      //@ C08,C01 #deadline-strictly-in-the-future
            // requests made through the Scheduler handle carry the global origin                               (C07)
            res is Ok ==> exists|a: Action, o: usize| #![trigger entry_of((deadline.into_time_spec(MonotonicTime { t: old(self).0.time.val() }), o), a)] accepted(old(self).0.scheduler_queue.view(), final(self).0.scheduler_queue.view(), entry_of((deadline.into_time_spec(MonotonicTime { t: old(self).0.time.val() }), o), a)),   //@ C08,C01 #queued-at-its-deadline
            res is Ok ==> exists|a: Action, t: MonotonicTime| #![trigger entry_of((t, GLOBAL_SCHEDULER_ORIGIN_ID), a)] accepted(old(self).0.scheduler_queue.view(), final(self).0.scheduler_queue.view(), entry_of((t, GLOBAL_SCHEDULER_ORIGIN_ID), a)),   //@ C07 #queued-with-the-global-origin
            res is Ok ==> exists|a: Action, qk: (MonotonicTime, usize)| #![trigger entry_of(qk, a)] a.period() == None::<nat> && accepted(old(self).0.scheduler_queue.view(), final(self).0.scheduler_queue.view(), entry_of(qk, a)),   //@ C10 #queued-with-the-requested-period
            res matches Ok(k) ==> exists|a: Action, qk: (MonotonicTime, usize)| #![trigger entry_of(qk, a)] a.key_id() == Some(k.id()) && accepted(old(self).0.scheduler_queue.view(), final(self).0.scheduler_queue.view(), entry_of(qk, a)),   //@ C09 #returned-key-cancels-the-queued-action
            queue_inv(final(self).0.scheduler_queue.view(), final(self).0.time.val()),
        //@]
    {
        self.0
            .schedule_keyed_event_from(deadline, func, arg, address, GLOBAL_SCHEDULER_ORIGIN_ID)
    }
//@end

//@item src=nexosim/src/simulation/scheduler.rs kind=fn name=schedule_periodic_event within=`impl Scheduler` id=Scheduler::schedule_periodic_event rules=MUTSELF,INTOADDR,GENERICA,RET
    pub fn schedule_periodic_event<M, F, T, S, A: Into<Address<M>>>(
        &mut self,
        deadline: impl Deadline,
        period: Duration,
        func: F,
        arg: T,
        address: A,
    ) -> (res: Result<(), SchedulingError>)
    where
        M: Model,
        F: for<'a> InputFn<'a, M, T, S> + Clone,
        T: Send + Clone + 'static,
        S: Send + 'static,
        //@[
        requires
            queue_inv(old(self).0.scheduler_queue.view(), old(self).0.time.val()),
        ensures
            final(self).0.time.val() == old(self).0.time.val(),
            res is Err ==> final(self).0.scheduler_queue.view() == old(self).0.scheduler_queue.view(),                                        //@ C08 #rejected-has-no-effect
            res is Ok ==> deadline.into_time_spec(MonotonicTime { t: old(self).0.time.val() }).t > old(self).0.time.val(),      //@ C08,C01 #deadline-strictly-in-the-future
            res is Ok ==> dur_ns(period) != 0,                                                                 //@ C08 #period-non-zero
            // requests made through the Scheduler handle carry the global origin                               (C07)
            res is Ok ==> exists|a: Action, o: usize| #![trigger entry_of((deadline.into_time_spec(MonotonicTime { t: old(self).0.time.val() }), o), a)] accepted(old(self).0.scheduler_queue.view(), final(self).0.scheduler_queue.view(), entry_of((deadline.into_time_spec(MonotonicTime { t: old(self).0.time.val() }), o), a)),   //@ C08,C01 #queued-at-its-deadline
            res is Ok ==> exists|a: Action, t: MonotonicTime| #![trigger entry_of((t, GLOBAL_SCHEDULER_ORIGIN_ID), a)] accepted(old(self).0.scheduler_queue.view(), final(self).0.scheduler_queue.view(), entry_of((t, GLOBAL_SCHEDULER_ORIGIN_ID), a)),   //@ C07 #queued-with-the-global-origin
            res is Ok ==> exists|a: Action, qk: (MonotonicTime, usize)| #![trigger entry_of(qk, a)] a.period() == Some(dur_ns(period)) && accepted(old(self).0.scheduler_queue.view(), final(self).0.scheduler_queue.view(), entry_of(qk, a)),   //@ C10 #queued-with-the-requested-period
            queue_inv(final(self).0.scheduler_queue.view(), final(self).0.time.val()),
        //@]
    {
        self.0.schedule_periodic_event_from(
            deadline,
            period,
            func,
            arg,
            address,
            GLOBAL_SCHEDULER_ORIGIN_ID,
        )
    }
//@end

//@item src=nexosim/src/simulation/scheduler.rs kind=fn name=schedule_keyed_periodic_event within=`impl Scheduler` id=Scheduler::schedule_keyed_periodic_event rules=MUTSELF,INTOADDR,GENERICA,RET
    pub fn schedule_keyed_periodic_event<M, F, T, S, A: Into<Address<M>>>(
        &mut self,
        deadline: impl Deadline,
        period: Duration,
        func: F,
        arg: T,
        address: A,
    ) -> (res: Result<ActionKey, SchedulingError>)
    where
        M: Model,
        F: for<'a> InputFn<'a, M, T, S> + Clone,
        T: Send + Clone + 'static,
        S: Send + 'static,
        //@[
        requires
            queue_inv(old(self).0.scheduler_queue.view(), old(self).0.time.val()),
        ensures
            final(self).0.time.val() == old(self).0.time.val(),
            res is Err ==> final(self).0.scheduler_queue.view() == old(self).0.scheduler_queue.view(),                                        //@ C08 #rejected-has-no-effect
            res is Ok ==> deadline.into_time_spec(MonotonicTime { t: old(self).0.time.val() }).t > old(self).0.time.val(),      //@ C08,C01 #deadline-strictly-in-the-future
            res is Ok ==> dur_ns(period) != 0,                                                                 //@ C08 #period-non-zero
            // requests made through the Scheduler handle carry the global origin                               (C07)
            res is Ok ==> exists|a: Action, o: usize| #![trigger entry_of((deadline.into_time_spec(MonotonicTime { t: old(self).0.time.val() }), o), a)] accepted(old(self).0.scheduler_queue.view(), final(self).0.scheduler_queue.view(), entry_of((deadline.into_time_spec(MonotonicTime { t: old(self).0.time.val() }), o), a)),   //@ C08,C01 #queued-at-its-deadline
            res is Ok ==> exists|a: Action, t: MonotonicTime| #![trigger entry_of((t, GLOBAL_SCHEDULER_ORIGIN_ID), a)] accepted(old(self).0.scheduler_queue.view(), final(self).0.scheduler_queue.view(), entry_of((t, GLOBAL_SCHEDULER_ORIGIN_ID), a)),   //@ C07 #queued-with-the-global-origin
            res is Ok ==> exists|a: Action, qk: (MonotonicTime, usize)| #![trigger entry_of(qk, a)] a.period() == Some(dur_ns(period)) && accepted(old(self).0.scheduler_queue.view(), final(self).0.scheduler_queue.view(), entry_of(qk, a)),   //@ C10 #queued-with-the-requested-period
            res matches Ok(k) ==> exists|a: Action, qk: (MonotonicTime, usize)| #![trigger entry_of(qk, a)] a.key_id() == Some(k.id()) && accepted(old(self).0.scheduler_queue.view(), final(self).0.scheduler_queue.view(), entry_of(qk, a)),   //@ C09 #returned-key-cancels-the-queued-action
            queue_inv(final(self).0.scheduler_queue.view(), final(self).0.time.val()),
        //@]
    {
        self.0.schedule_keyed_periodic_event_from(
            deadline,
            period,
            func,
            arg,
            address,
            GLOBAL_SCHEDULER_ORIGIN_ID,
        )
    }
//@end

}

// ---------- model contexts: the origin of a self-scheduled event is the model's own channel id ----------
impl<M: Model> Address<M> {
    pub uninterp spec fn chan_id(&self) -> usize;
    // Sender::channel_id: the address of the shared channel state (non-null: different from the global origin 0) - assumption
    #[verifier::external_body]
    pub fn channel_id(&self) -> (r: usize) ensures r == self.chan_id(), r != GLOBAL_SCHEDULER_ORIGIN_ID { unimplemented!() }
}
impl<'a, M: Model> From<&'a Address<M>> for Address<M> {
    #[verifier::external_body]
    fn from(a: &'a Address<M>) -> (r: Address<M>) { unimplemented!() }
}
#[verifier::reject_recursive_types(M)]
//@item src=nexosim/src/model/context.rs kind=struct name=Context rules=PUBSTRUCT,PUBFIELDS
pub struct Context<M: Model> {
    pub name: String,
    pub scheduler: GlobalScheduler,
    pub address: Address<M>,
    pub origin_id: usize,
}
//@end

impl<M: Model> Context<M> {
//@item src=nexosim/src/model/context.rs kind=fn name=new within=`impl<M: Model> Context<M>` id=Context::new rules=PUBCRATE,CHANID,RET
    pub fn new(name: String, scheduler: GlobalScheduler, address: Address<M>) -> (res: Self)
        //@[
        ensures
            // C07: the origin id is specific to the model (its channel id) and different from the global scheduler's
            res.origin_id == address.chan_id(), res.origin_id != GLOBAL_SCHEDULER_ORIGIN_ID,      //@ C07 #origin-is-the-models-channel
            res.scheduler == scheduler, res.name == name,
        //@]
    {
        // The only requirement for the origin ID is that it must be (i)
        // specific to each model and (ii) different from 0 (which is reserved
        // for the global scheduler). The channel ID of the model mailbox
        // fulfills this requirement.
        let origin_id = address.channel_id();

        Self {
            name,
            scheduler,
            address,
            origin_id,
        }
    }
//@end

//@item src=nexosim/src/model/context.rs kind=fn name=schedule_event within=`impl<M: Model> Context<M>` id=Context::schedule_event rules=MUTSELF,RET
    pub fn schedule_event<F, T, S>(
        &mut self,
        deadline: impl Deadline,
        func: F,
        arg: T,
    ) -> (res: Result<(), SchedulingError>)
    where
        F: for<'a> InputFn<'a, M, T, S>,
        T: Send + Clone + 'static,
        S: Send + 'static,
        //@[
        requires
            queue_inv(old(self).scheduler.scheduler_queue.view(), old(self).scheduler.time.val()),
        ensures
            final(self).scheduler.time.val() == old(self).scheduler.time.val(), final(self).origin_id == old(self).origin_id,
            res is Err ==> final(self).scheduler.scheduler_queue.view() == old(self).scheduler.scheduler_queue.view(),                                        //@ C08 #rejected-has-no-effect
            res is Ok ==> deadline.into_time_spec(MonotonicTime { t: old(self).scheduler.time.val() }).t > old(self).scheduler.time.val(),      //@ C08,C01 #deadline-strictly-in-the-future
            // requests made through a model's context carry that model's origin id                              (C07)
            res is Ok ==> exists|a: Action, o: usize| #![trigger entry_of((deadline.into_time_spec(MonotonicTime { t: old(self).scheduler.time.val() }), o), a)] accepted(old(self).scheduler.scheduler_queue.view(), final(self).scheduler.scheduler_queue.view(), entry_of((deadline.into_time_spec(MonotonicTime { t: old(self).scheduler.time.val() }), o), a)),   //@ C08,C01 #queued-at-its-deadline
            res is Ok ==> exists|a: Action, t: MonotonicTime| #![trigger entry_of((t, old(self).origin_id), a)] accepted(old(self).scheduler.scheduler_queue.view(), final(self).scheduler.scheduler_queue.view(), entry_of((t, old(self).origin_id), a)),   //@ C07 #queued-with-the-models-origin
            res is Ok ==> exists|a: Action, qk: (MonotonicTime, usize)| #![trigger entry_of(qk, a)] a.period() == None::<nat> && accepted(old(self).scheduler.scheduler_queue.view(), final(self).scheduler.scheduler_queue.view(), entry_of(qk, a)),   //@ C10 #queued-with-the-requested-period
            queue_inv(final(self).scheduler.scheduler_queue.view(), final(self).scheduler.time.val()),
        //@]
    {
        self.scheduler
            .schedule_event_from(deadline, func, arg, &self.address, self.origin_id)
    }
//@end

//@item src=nexosim/src/model/context.rs kind=fn name=schedule_keyed_event within=`impl<M: Model> Context<M>` id=Context::schedule_keyed_event rules=MUTSELF,RET
    pub fn schedule_keyed_event<F, T, S>(
        &mut self,
        deadline: impl Deadline,
        func: F,
        arg: T,
    ) -> (res: Result<ActionKey, SchedulingError>)
    where
        F: for<'a> InputFn<'a, M, T, S>,
        T: Send + Clone + 'static,
        S: Send + 'static,
        //@[
        requires
            queue_inv(old(self).scheduler.scheduler_queue.view(), old(self).scheduler.time.val()),
        ensures
            final(self).scheduler.time.val() == old(self).scheduler.time.val(), final(self).origin_id == old(self).origin_id,
            res is Err ==> final(self).scheduler.scheduler_queue.view() == old(self).scheduler.scheduler_queue.view(),                                        //@ C08 #rejected-has-no-effect
            res is Ok ==> deadline.into_time_spec(MonotonicTime { t: old(self).scheduler.time.val() }).t > old(self).scheduler.time.val(),      //@ C08,C01 #deadline-strictly-in-the-future
            // requests made through a model's context carry that model's origin id                              (C07)
            res is Ok ==> exists|a: Action, o: usize| #![trigger entry_of((deadline.into_time_spec(MonotonicTime { t: old(self).scheduler.time.val() }), o), a)] accepted(old(self).scheduler.scheduler_queue.view(), final(self).scheduler.scheduler_queue.view(), entry_of((deadline.into_time_spec(MonotonicTime { t: old(self).scheduler.time.val() }), o), a)),   //@ C08,C01 #queued-at-its-deadline
            res is Ok ==> exists|a: Action, t: MonotonicTime| #![trigger entry_of((t, old(self).origin_id), a)] accepted(old(self).scheduler.scheduler_queue.view(), final(self).scheduler.scheduler_queue.view(), entry_of((t, old(self).origin_id), a)),   //@ C07 #queued-with-the-models-origin
            res is Ok ==> exists|a: Action, qk: (MonotonicTime, usize)| #![trigger entry_of(qk, a)] a.period() == None::<nat> && accepted(old(self).scheduler.scheduler_queue.view(), final(self).scheduler.scheduler_queue.view(), entry_of(qk, a)),   //@ C10 #queued-with-the-requested-period
            res matches Ok(k) ==> exists|a: Action, qk: (MonotonicTime, usize)| #![trigger entry_of(qk, a)] a.key_id() == Some(k.id()) && accepted(old(self).scheduler.scheduler_queue.view(), final(self).scheduler.scheduler_queue.view(), entry_of(qk, a)),   //@ C09 #returned-key-cancels-the-queued-action
            queue_inv(final(self).scheduler.scheduler_queue.view(), final(self).scheduler.time.val()),
        //@]
    {
        let event_key = self.scheduler.schedule_keyed_event_from(
            deadline,
            func,
            arg,
            &self.address,
            self.origin_id,
        )?;

        Ok(event_key)
    }
//@end

//@item src=nexosim/src/model/context.rs kind=fn name=schedule_periodic_event within=`impl<M: Model> Context<M>` id=Context::schedule_periodic_event rules=MUTSELF,RET
    pub fn schedule_periodic_event<F, T, S>(
        &mut self,
        deadline: impl Deadline,
        period: Duration,
        func: F,
        arg: T,
    ) -> (res: Result<(), SchedulingError>)
    where
        F: for<'a> InputFn<'a, M, T, S> + Clone,
        T: Send + Clone + 'static,
        S: Send + 'static,
        //@[
        requires
            queue_inv(old(self).scheduler.scheduler_queue.view(), old(self).scheduler.time.val()),
        ensures
            final(self).scheduler.time.val() == old(self).scheduler.time.val(), final(self).origin_id == old(self).origin_id,
            res is Err ==> final(self).scheduler.scheduler_queue.view() == old(self).scheduler.scheduler_queue.view(),                                        //@ C08 #rejected-has-no-effect
            res is Ok ==> deadline.into_time_spec(MonotonicTime { t: old(self).scheduler.time.val() }).t > old(self).scheduler.time.val(),      //@ C08,C01 #deadline-strictly-in-the-future
            res is Ok ==> dur_ns(period) != 0,                                                                 //@ C08 #period-non-zero
            // requests made through a model's context carry that model's origin id                              (C07)
            res is Ok ==> exists|a: Action, o: usize| #![trigger entry_of((deadline.into_time_spec(MonotonicTime { t: old(self).scheduler.time.val() }), o), a)] accepted(old(self).scheduler.scheduler_queue.view(), final(self).scheduler.scheduler_queue.view(), entry_of((deadline.into_time_spec(MonotonicTime { t: old(self).scheduler.time.val() }), o), a)),   //@ C08,C01 #queued-at-its-deadline
            res is Ok ==> exists|a: Action, t: MonotonicTime| #![trigger entry_of((t, old(self).origin_id), a)] accepted(old(self).scheduler.scheduler_queue.view(), final(self).scheduler.scheduler_queue.view(), entry_of((t, old(self).origin_id), a)),   //@ C07 #queued-with-the-models-origin
            res is Ok ==> exists|a: Action, qk: (MonotonicTime, usize)| #![trigger entry_of(qk, a)] a.period() == Some(dur_ns(period)) && accepted(old(self).scheduler.scheduler_queue.view(), final(self).scheduler.scheduler_queue.view(), entry_of(qk, a)),   //@ C10 #queued-with-the-requested-period
            queue_inv(final(self).scheduler.scheduler_queue.view(), final(self).scheduler.time.val()),
        //@]
    {
        self.scheduler.schedule_periodic_event_from(
            deadline,
            period,
            func,
            arg,
            &self.address,
            self.origin_id,
        )
    }
//@end

//@item src=nexosim/src/model/context.rs kind=fn name=schedule_keyed_periodic_event within=`impl<M: Model> Context<M>` id=Context::schedule_keyed_periodic_event rules=MUTSELF,RET
    pub fn schedule_keyed_periodic_event<F, T, S>(
        &mut self,
        deadline: impl Deadline,
        period: Duration,
        func: F,
        arg: T,
    ) -> (res: Result<ActionKey, SchedulingError>)
    where
        F: for<'a> InputFn<'a, M, T, S> + Clone,
        T: Send + Clone + 'static,
        S: Send + 'static,
        //@[
        requires
            queue_inv(old(self).scheduler.scheduler_queue.view(), old(self).scheduler.time.val()),
        ensures
            final(self).scheduler.time.val() == old(self).scheduler.time.val(), final(self).origin_id == old(self).origin_id,
            res is Err ==> final(self).scheduler.scheduler_queue.view() == old(self).scheduler.scheduler_queue.view(),                                        //@ C08 #rejected-has-no-effect
            res is Ok ==> deadline.into_time_spec(MonotonicTime { t: old(self).scheduler.time.val() }).t > old(self).scheduler.time.val(),      //@ C08,C01 #deadline-strictly-in-the-future
            res is Ok ==> dur_ns(period) != 0,                                                                 //@ C08 #period-non-zero
            // requests made through a model's context carry that model's origin id                              (C07)
            res is Ok ==> exists|a: Action, o: usize| #![trigger entry_of((deadline.into_time_spec(MonotonicTime { t: old(self).scheduler.time.val() }), o), a)] accepted(old(self).scheduler.scheduler_queue.view(), final(self).scheduler.scheduler_queue.view(), entry_of((deadline.into_time_spec(MonotonicTime { t: old(self).scheduler.time.val() }), o), a)),   //@ C08,C01 #queued-at-its-deadline
            res is Ok ==> exists|a: Action, t: MonotonicTime| #![trigger entry_of((t, old(self).origin_id), a)] accepted(old(self).scheduler.scheduler_queue.view(), final(self).scheduler.scheduler_queue.view(), entry_of((t, old(self).origin_id), a)),   //@ C07 #queued-with-the-models-origin
            res is Ok ==> exists|a: Action, qk: (MonotonicTime, usize)| #![trigger entry_of(qk, a)] a.period() == Some(dur_ns(period)) && accepted(old(self).scheduler.scheduler_queue.view(), final(self).scheduler.scheduler_queue.view(), entry_of(qk, a)),   //@ C10 #queued-with-the-requested-period
            res matches Ok(k) ==> exists|a: Action, qk: (MonotonicTime, usize)| #![trigger entry_of(qk, a)] a.key_id() == Some(k.id()) && accepted(old(self).scheduler.scheduler_queue.view(), final(self).scheduler.scheduler_queue.view(), entry_of(qk, a)),   //@ C09 #returned-key-cancels-the-queued-action
            queue_inv(final(self).scheduler.scheduler_queue.view(), final(self).scheduler.time.val()),
        //@]
    {
        let event_key = self.scheduler.schedule_keyed_periodic_event_from(
            deadline,
            period,
            func,
            arg,
            &self.address,
            self.origin_id,
        )?;

        Ok(event_key)
    }
//@end

}

// ---------- event sources: the actions they build carry exactly the caller's period and the returned key ----------
#[verifier::external_body]
fn mk_OnceAction0(via: Via) -> (a: Action) ensures a.period() is None, a.key_id() is None { unimplemented!() }
#[verifier::external_body]
fn mk_KeyedOnceAction0(key: ActionKey, via: Via) -> (a: Action) ensures a.period() is None, a.key_id() == Some(key.id()) { unimplemented!() }
#[verifier::external_body]
fn mk_PeriodicAction0(period: Duration, via: Via) -> (a: Action) ensures a.period() == Some(dur_ns(period)), a.key_id() is None { unimplemented!() }
#[verifier::external_body]
fn mk_KeyedPeriodicAction0(period: Duration, key: ActionKey, via: Via) -> (a: Action) ensures a.period() == Some(dur_ns(period)), a.key_id() == Some(key.id()) { unimplemented!() }

#[verifier::reject_recursive_types(T)]
//@item src=nexosim/src/ports/source.rs kind=struct name=EventSource rules=PUBSRC
pub struct EventSource<T: Clone + Send + 'static> {
    pub broadcaster: core::marker::PhantomData<T>,
}
//@end

impl<T: Clone + Send + 'static> EventSource<T> {
//@item src=nexosim/src/ports/source.rs kind=fn name=event within=`impl<T: Clone \+ Send \+ 'static> EventSource<T>` id=EventSource::event rules=BCAST,BCLONE,ASYNCFUT,CTOR0,ZEROSUF,RET
    pub fn event(&mut self, arg: T) -> (res: Action)
        //@[
        ensures
            res.period() is None, res.key_id() is None,                       //@ C10,C09 #one-shot-unkeyed
        //@]
    {
        let fut = ();
        let fut = ();

        mk_OnceAction0(Via::Inline)
    }
//@end

//@item src=nexosim/src/ports/source.rs kind=fn name=keyed_event within=`impl<T: Clone \+ Send \+ 'static> EventSource<T>` id=EventSource::keyed_event rules=BCAST,BCLONE,ASYNCFUT,CTOR0,ZEROSUF,RET
    pub fn keyed_event(&mut self, arg: T) -> (res: (Action, ActionKey))
        //@[
        ensures
            res.0.period() is None, res.0.key_id() == Some(res.1.id()),      //@ C09 #returned-key-cancels-the-action
        //@]
    {
        let action_key = ActionKey::new();
        let fut = ();

        let action = mk_KeyedOnceAction0(action_key.clone(), Via::Inline);

        (action, action_key)
    }
//@end

//@item src=nexosim/src/ports/source.rs kind=fn name=periodic_event within=`impl<T: Clone \+ Send \+ 'static> EventSource<T>` id=EventSource::periodic_event rules=BCAST,BCLONE,ASYNCFUT,CTOR0,ZEROSUF,RET
    pub fn periodic_event(&mut self, period: Duration, arg: T) -> (res: Action)
        //@[
        ensures
            res.period() == Some(dur_ns(period)), res.key_id() is None,     //@ C10,C08 #built-with-the-callers-period
        //@]
    {
        let broadcaster = ();

        mk_PeriodicAction0(period, Via::Inline)
    }
//@end

//@item src=nexosim/src/ports/source.rs kind=fn name=keyed_periodic_event within=`impl<T: Clone \+ Send \+ 'static> EventSource<T>` id=EventSource::keyed_periodic_event rules=BCAST,BCLONE,ASYNCFUT,CTOR0,ZEROSUF,RET
    pub fn keyed_periodic_event(&mut self, period: Duration, arg: T) -> (res: (Action, ActionKey))
        //@[
        ensures
            res.0.period() == Some(dur_ns(period)),                         //@ C10,C08 #built-with-the-callers-period
            res.0.key_id() == Some(res.1.id()),                               //@ C09 #returned-key-cancels-the-action
        //@]
    {
        let action_key = ActionKey::new();
        let broadcaster = ();

        let action = mk_KeyedPeriodicAction0(period, action_key.clone(), Via::Inline);

        (action, action_key)
    }
//@end

}

} // verus!
fn main() {}
