//@unit xreg
//@exec
//@props C06,C11,C16
// BOUNDED executable stand-in for model registration and failure reporting (labelled bounded, never counted as proved).
// The REAL text of simulation::add_model, BuildContext (struct + impl), SimInit::add_model, Simulation::run, ModelId,
// DeadlockInfo, ExecutionError and SimInit::init is cut from /repo on every run with NO rewrite rule and compiled by rustc
// against the executable stubs below (the model task - `init().await`, then the receive loop - is the real async block). `main` builds every model hierarchy up to the bound (trees with up to 4 models, depth <= 3, every
// assignment of 0/1/2 queued messages to the mailboxes), registers it through the real code, lets the stub executor report
// (a) UnprocessedMessages and (b) a panic of each model in turn, and compares Simulation::run's report with the statement of
// C06 (exactly the non-empty mailboxes of models of the simulation, by fully qualified name, with their sizes) and C11
// (Panic / NoRecipient name the model whose task it was), and, per model, with C16: init runs exactly once, during
// SimInit::init, before that model takes its first message, under the qualified name parent.child.
#![allow(dead_code, unused_imports, unused_variables, unused_mut, unused_macros, unreachable_code)]
use std::any::{Any, TypeId};
use std::cell::Cell;
use std::collections::*;
use std::fmt;
use std::future::Future;
use std::{cmp, mem, ptr};
use std::panic;
use std::pin::Pin;
use std::sync::atomic::{AtomicUsize, Ordering as AtomicOrdering};
use std::sync::{Arc, Mutex, MutexGuard};
use std::task::{Context as TaskContext, Poll, RawWaker, RawWakerVTable, Waker};
use std::time::Duration;

// ------------------------------------------------------------------ executable stubs
#[derive(Copy, Clone, Debug, PartialEq, Eq, PartialOrd, Ord)]
pub struct MonotonicTime(pub u64);
pub struct SendError;
pub trait ChannelObserver: Send {
    fn len(&self) -> usize;
}
#[derive(Copy, Clone, Debug, PartialEq, Eq)]
pub enum SyncStatus {
    Synchronized,
    OutOfSync(Duration),
}
pub trait Clock: Send {
    fn synchronize(&mut self, deadline: MonotonicTime) -> SyncStatus;
}
pub struct SchedulerQueue;
#[derive(Clone)]
pub struct AtomicTime;
pub struct AtomicTimeReader;
impl AtomicTime {
    pub fn reader(&self) -> AtomicTimeReader {
        AtomicTimeReader
    }
    pub fn write(&self, _t: MonotonicTime) {}
}
pub struct Scheduler(GlobalScheduler);
impl Scheduler {
    pub(crate) fn new(q: Arc<Mutex<SchedulerQueue>>, t: AtomicTimeReader) -> Self {
        Scheduler(GlobalScheduler::new(q, t))
    }
}
#[derive(Clone)]
pub struct GlobalScheduler;
impl GlobalScheduler {
    pub fn new(_q: Arc<Mutex<SchedulerQueue>>, _t: AtomicTimeReader) -> Self {
        GlobalScheduler
    }
}
#[derive(Clone)]
pub struct Signal;
impl Signal {
    pub fn is_set(&self) -> bool {
        false
    }
}

// the shared state of one mailbox: how many messages are queued in it (scripted)
pub struct Chan {
    pub len: usize,
    pub tag: usize,
}
pub struct Receiver<M> {
    pub chan: Arc<Chan>,
    served: bool,
    _m: std::marker::PhantomData<M>,
}
pub struct Obs(Arc<Chan>);
impl ChannelObserver for Obs {
    fn len(&self) -> usize {
        self.0.len
    }
}
impl<M> Receiver<M> {
    pub fn observer(&self) -> impl ChannelObserver {
        Obs(self.chan.clone())
    }
    // the first call "processes a message" (logged), the second one finds the channel closed: the model loop ends
    pub async fn recv(&mut self, _model: &mut M, _cx: &mut Context<M>) -> Result<(), ()> {
        if self.served {
            return Err(());
        }
        self.served = true;
        EVENT_LOG.lock().unwrap().push(("message", self.chan.tag));
        Ok(())
    }
}
pub struct Address<M>(pub Arc<Chan>, std::marker::PhantomData<M>);
pub struct Mailbox<M: Model>(pub(crate) Receiver<M>);
impl<M: Model> Mailbox<M> {
    pub fn scripted(len: usize, tag: usize) -> Self {
        Mailbox(Receiver { chan: Arc::new(Chan { len, tag }), served: false, _m: std::marker::PhantomData })
    }
    pub fn address(&self) -> Address<M> {
        Address(self.0.chan.clone(), std::marker::PhantomData)
    }
}
pub struct Context<M> {
    name: String,
    tag: usize,
    _m: std::marker::PhantomData<M>,
}
impl<M: Model> Context<M> {
    pub(crate) fn new(name: String, _scheduler: GlobalScheduler, address: Address<M>) -> Self {
        Context { name, tag: address.0.tag, _m: std::marker::PhantomData }
    }
    pub fn name(&self) -> &str {
        &self.name
    }
}
pub struct InitializedModel<M: Model>(pub(crate) M);

thread_local! { pub(crate) static CURRENT_MODEL_ID: Cell<ModelId> = const { Cell::new(ModelId::none()) }; }
// what happened: (model id current while init ran, the name in the context given to init, the mailbox tag)
static INIT_LOG: Mutex<Vec<(Option<usize>, String, usize)>> = Mutex::new(Vec::new());
// per model (mailbox tag): "init" when its init runs, "message" when its receive loop takes a message
static EVENT_LOG: Mutex<Vec<(&'static str, usize)>> = Mutex::new(Vec::new());

pub trait Model: Sized + Send + 'static {
    fn init(self, cx: &mut Context<Self>) -> impl Future<Output = InitializedModel<Self>> + Send {
        INIT_LOG.lock().unwrap().push((CURRENT_MODEL_ID.get().get(), cx.name().to_string(), cx.tag));
        EVENT_LOG.lock().unwrap().push(("init", cx.tag));
        async { InitializedModel(self) }
    }
}
pub trait ProtoModel: Sized {
    type Model: Model;
    fn build(self, cx: &mut BuildContext<Self>) -> Self::Model;
}

/// Mirrors simulation::ModelFuture: the model id is current exactly while the model's future is polled.
pub struct ModelFuture<F> {
    fut: Pin<Box<F>>,
    id: ModelId,
}
impl<F> ModelFuture<F> {
    fn new(fut: F, id: ModelId) -> Self {
        Self { fut: Box::pin(fut), id }
    }
}
impl<F: Future> Future for ModelFuture<F> {
    type Output = F::Output;
    fn poll(mut self: Pin<&mut Self>, cx: &mut TaskContext<'_>) -> Poll<Self::Output> {
        CURRENT_MODEL_ID.set(self.id);
        let p = self.fut.as_mut().poll(cx);
        CURRENT_MODEL_ID.set(ModelId::none());
        p
    }
}

pub enum ExecutorError {
    UnprocessedMessages(usize),
    Timeout,
    Panic(ModelId, Box<dyn Any + Send + 'static>),
}
pub struct Executor {
    tasks: Mutex<Vec<Pin<Box<dyn Future<Output = ()> + Send>>>>,
    pub fail: Mutex<Option<ExecutorError>>,
}
fn noop_waker() -> Waker {
    fn clone(_: *const ()) -> RawWaker {
        RawWaker::new(std::ptr::null(), &VT)
    }
    fn noop(_: *const ()) {}
    static VT: RawWakerVTable = RawWakerVTable::new(clone, noop, noop, noop);
    unsafe { Waker::from_raw(RawWaker::new(std::ptr::null(), &VT)) }
}
impl Executor {
    pub fn new() -> Self {
        Executor { tasks: Mutex::new(Vec::new()), fail: Mutex::new(None) }
    }
    pub fn spawn_and_forget<T: Future<Output = ()> + Send + 'static>(&self, fut: T) {
        self.tasks.lock().unwrap().push(Box::pin(fut));
    }
    pub fn run(&mut self, _timeout: Duration) -> Result<(), ExecutorError> {
        let waker = noop_waker();
        let mut cx = TaskContext::from_waker(&waker);
        let tasks: Vec<_> = std::mem::take(&mut *self.tasks.lock().unwrap());
        for mut t in tasks {
            let mut n = 0;
            while t.as_mut().poll(&mut cx).is_pending() {
                n += 1;
                if n > 1000 {
                    break;
                }
            }
        }
        match self.fail.lock().unwrap().take() {
            Some(e) => Err(e),
            None => Ok(()),
        }
    }
}
pub mod simulation {
    pub(crate) use super::*;
}

// ------------------------------------------------------------------ the real text (cut from /repo on every run)
#[derive(Copy, Clone, Debug)]
//@item src=nexosim/src/simulation.rs kind=struct name=ModelId
//@end
//@item src=nexosim/src/simulation.rs kind=impl name=`^impl ModelId ` id=impl-ModelId
//@end
#[derive(Clone, Debug, PartialEq, Eq)]
//@item src=nexosim/src/simulation.rs kind=struct name=DeadlockInfo
//@end
//@item src=nexosim/src/simulation.rs kind=enum name=ExecutionError
//@end
//@item src=nexosim/src/simulation.rs kind=struct name=Simulation
//@end
impl Simulation {
//@item src=nexosim/src/simulation.rs kind=fn name=new within=`impl Simulation` id=Simulation::new
//@end
//@item src=nexosim/src/simulation.rs kind=fn name=run within=`impl Simulation`
//@end
}
//@item src=nexosim/src/simulation.rs kind=fn name=add_model
//@end
//@item src=nexosim/src/model/context.rs kind=struct name=BuildContext
//@end
//@item src=nexosim/src/model/context.rs kind=impl name=`<'a, P: ProtoModel> BuildContext<'a, P>` id=impl-BuildContext
//@end
//@item src=nexosim/src/simulation/sim_init.rs kind=struct name=SimInit
//@end
impl SimInit {
//@item src=nexosim/src/simulation/sim_init.rs kind=fn name=add_model within=`impl SimInit` id=SimInit::add_model
//@end
//@item src=nexosim/src/simulation/sim_init.rs kind=fn name=init within=`impl SimInit` id=SimInit::init
//@end
}

// ------------------------------------------------------------------ hierarchies, expectations, comparison
//@include inc/xreg_harness.rs
