//@unit simmon
//@props C08,C01,C18
//@define mon
//@verus --rlimit 150 --triggers-mode silent
// Unit simmon: MONITOR PASS over the same text as units sim and sched (C08 "race-free", C01 under concurrent scheduling).
// The scheduler queue is havocked at every lock acquisition to ANY value satisfying inv(queue, time); every release
// (explicit drop, or a return inside the guard's scope, made explicit by rule RELEASE*) must re-establish it; the
// simulation time may only be written while the lock is held and never decreases. Nothing else is proved here.
//   Simulation::{time, step, step_until, process, run (+ lifted closure), step_to_next_bounded
//   (with nested pull_next_action / peek_next_key), step_until_unchecked}, ModelId::{none,new,get},
//   struct Simulation, DeadlockInfo, enum ExecutionError.
// Everything outside `//@item … //@end` is prelude: stubs (= assumptions, scanned and listed on every
// run), spec functions and lemmas (checked by Verus).
//
// ---- rewrite rules (each is recorded in the evidence file when it fires) ----
//@rule GUARDTY :: MutexGuard<SchedulerQueue> :: SchedulerQueue :: R1 a guard is exclusive access to the queue
//@rule LOCK :: let mut scheduler_queue = self\.scheduler_queue\.lock\(\)\.unwrap\(\); :: lock_queue(&mut self.scheduler_queue, &self.time); :: R1b critical-section entry becomes a stub call (functional pass: no interference; monitor pass: havoc)
//@rule UNLOCK :: drop\(scheduler_queue\); :: unlock_queue(&mut self.scheduler_queue, &self.time); :: R13 critical-section exit becomes a stub call
//@rule GUARDUSE :: &mut scheduler_queue\b :: &mut self.scheduler_queue :: R1b the guard is the queue itself
//@rule REFPAT :: Some\(\(&key, action\)\) :: Some((key, action)) :: R4 ref pattern unsupported by Verus
//@rule REFUSE :: break Some\(key\) :: break Some(*key) :: R4
//@rule EXECMUT :: &self\.executor\b :: &mut self.executor :: R2 executor handle made exclusive so that it can carry the ghost task log
//@rule MAPUNIT :: \|_\| :: |_x| :: R14 wildcard closure parameter unsupported by Verus
//@rule PUBSTRUCT :: ^(\s*)(?:pub(?:\(crate\))? )?struct :: \1pub struct :: R7
//@rule PUBTUPLE :: \(usize\); :: (pub usize); :: R7
//@rule QUEUEFIELD :: Arc<Mutex<SchedulerQueue>> :: SchedulerQueue :: R2
//@rule CLOCKFIELD :: Box<dyn Clock> :: ClockBox :: R2 trait object as an abstract stub type
//@rule OBSFIELD :: Box<dyn ChannelObserver> :: ObserverBox :: R2
//@rule PAYLOAD :: Box<dyn Any \+ Send \+ 'static> :: Payload :: R10
//@rule TYPEID :: \(\*payload\)\.type_id\(\) == TypeId::of::<SendError>\(\) :: payload_is_send_error(&payload) :: R10 Any/TypeId are outside Verus: uninterpreted attribute of the payload
//@rule RESUME :: panic::resume_unwind\(payload\) :: resume_unwind(payload) :: R10 diverging stub
//@rule NAMEMAP :: \.map\(\|id\| (self\.model_names\.get\(id\)\.unwrap\(\)\.clone\(\))\) :: .map(|id: usize| -> (r: String) { \1 }) :: R17 typed, braced closure so that it can carry a requires clause
//@rule ASSERTNE :: assert_ne!\(id, usize::MAX\); :: if id == usize::MAX { vpanic(); } :: R6 panics are divergence
//@rule LAGCMP :: if &lag > tolerance :: if dur_gt(&lag, tolerance) :: R16 comparison of std Durations through a specified stub
//@rule ARMBRACE :: None => return Ok\(None\), :: None => { unlock_queue(&mut self.scheduler_queue, &self.time); return Ok(None) } :: R13' the implicit drop of the guard at this `return` made explicit
//@rule TIMEWRITE :: self\.time\.write\(([^)]*)\); :: write_time_locked(&mut self.time, \1, &self.scheduler_queue); :: R1' the time write carries the lock state so that "written only inside a critical section" is an obligation
//@rule HOOK :: #\[cfg\(asynchronix_verif\)\]\s*crate::verif_hooks::pause_point\([^)]*\); ::  :: R19 verification-only pause points are no-ops without an installed callback
//@rule LOCK2 :: let scheduler_queue = self\.scheduler_queue\.lock\(\)\.unwrap\(\); :: lock_queue(&mut self.scheduler_queue, &self.time); :: R1b
//@rule GUARDPEEK :: \bscheduler_queue\.peek\(\) :: self.scheduler_queue.peek() :: R1b
//@rule IMPLDL :: deadline: impl Deadline :: deadline: impl Deadline :: R14 (kept as is)
//@pyrule GUARD :: inline_guard(scheduler_queue ;; self.scheduler_queue ;; lock_queue(&mut self.scheduler_queue, &self.time); ;; unlock_queue(&mut self.scheduler_queue, &self.time);) :: R1b/R13 the guard variable is the locked queue itself; lock()/drop() become stub calls (functional pass: no interference; monitor pass: havoc)
//@pyrule PUBFIELDS :: pub_fields() :: R7
//@pyrule RET :: name_ret(res) :: R17 result named so that the contract can mention it
//@pyrule RETACTION :: name_ret(action ;; pull_next_action) :: R17
//@pyrule RETKEY :: name_ret(r ;; peek_next_key) :: R17
//@pyrule RETMAPERR :: name_ret(r ;; __run_map_err) :: R17
//@pyrule CLOSURE :: closure_to_fn(peek_next_key ;; upper_time_bound: MonotonicTime ;; Option<(MonotonicTime, usize)>) :: R11 closure lifted to a nested fn
//@pyrule BREAKVAL :: break_value(peek_next_key ;; Option<(MonotonicTime, usize)>) :: R5 break-with-value desugared
//@pyrule LIFT :: lift_map_err(__run_map_err ;; ExecutorError ;; ExecutionError) :: R9 lambda lifting of the map_err closure
use vstd::prelude::*;
use vstd::std_specs::cmp::{PartialOrdSpec, PartialOrdSpecImpl, PartialEqSpec, PartialEqSpecImpl};
use core::cmp::Ordering;
use std::time::Duration;
verus! {

#[verifier::external_body]
fn vpanic() -> ! { panic!() }

//@include inc/time_stubs.rs

//@include inc/kernel_stubs.rs

// the monitor invariant of Mutex<SchedulerQueue>, relative to the current simulation time
pub open spec fn inv(q: Seq<Entry>, now: u64) -> bool { sorted(q) && all_later(q, now) && no_zero_period(q) }
// the clock is never synchronised ahead of the simulation time: together with "the time never decreases" and the precondition
// of ClockBox::synchronize in this pass (t >= the last synchronised time) the times passed to synchronize never decrease,
// whatever other threads schedule in between
pub open spec fn sync_ok(s: Seq<u64>, now: u64) -> bool { s.len() > 0 ==> s.last() <= now }
pub open spec fn all_ge(s: Seq<Entry>, t: u64) -> bool { forall|i: int| 0 <= i < s.len() ==> (#[trigger] s[i]).time >= t }

// acquisition: whatever other threads left behind - ANY queue satisfying the invariant
#[verifier::external_body]
fn lock_queue(q: &mut SchedulerQueue, time: &AtomicTime)
    requires !old(q).locked(),                //@ C08 #lock-not-taken-twice
    ensures final(q).locked(), inv(final(q).view(), time.val()),
{ }
// release: the invariant must hold; afterwards nothing is known about the queue
#[verifier::external_body]
fn unlock_queue(q: &mut SchedulerQueue, time: &AtomicTime)
    requires
        old(q).locked(),                      //@ C08 #unlock-only-when-held
        inv(old(q).view(), time.val()),      //@ C08,C01 #invariant-at-release
    ensures !final(q).locked(),
{ }
// the simulation time is written only inside a critical section of the queue lock, and never decreases
#[verifier::external_body]
fn write_time_locked(time: &mut AtomicTime, t: MonotonicTime, q: &SchedulerQueue)
    requires
        q.locked(),                           //@ C08,C01 #time-written-only-under-the-queue-lock
        t.t >= old(time).val(),               //@ C01 #time-never-decreases
    ensures final(time).val() == t.t,
{ }

//@include inc/sim_types.rs
//@include inc/sim_lemmas.rs

impl Simulation {
    // Simulation::run neither touches the queue lock nor writes the time (proved in unit sim)
    #[verifier::external_body]
    fn run(&mut self) -> (res: Result<(), ExecutionError>)
        ensures final(self).time.val() == old(self).time.val(),
            final(self).scheduler_queue.locked() == old(self).scheduler_queue.locked(),
            final(self).clock.syncs() == old(self).clock.syncs(),
    { unimplemented!() }
}

pub proof fn lemma_all_ge_drop(q: Seq<Entry>, t: u64)
    requires all_ge(q, t), q.len() > 0
    ensures all_ge(q.drop_first(), t)
{
    assert forall|i: int| 0 <= i < q.drop_first().len() implies (#[trigger] q.drop_first()[i]).time >= t by { assert(q.drop_first()[i] == q[i + 1]); }
}
pub proof fn lemma_pull_keeps_ge(qb: Seq<Entry>, q1: Seq<Entry>, t: u64)
    requires all_ge(qb, t), pull_rel(qb, q1)
    ensures all_ge(q1, t)
{
    let dq = qb.drop_first();
    lemma_all_ge_drop(qb, t);
    if qb[0].period is Some {
        let (p, e) = choose|p: int, e: Entry| 0 <= p <= qb.len() - 1 && is_reins(qb[0], e) && q1 == #[trigger] dq.insert(p, e)
            && (forall|i: int| 0 <= i < p ==> key_le(#[trigger] dq[i], e))
            && (forall|i: int| p <= i < qb.len() - 1 ==> !key_le(#[trigger] dq[i], e));
        assert forall|i: int| 0 <= i < q1.len() implies (#[trigger] q1[i]).time >= t by {
            if i < p { assert(q1[i] == dq[i]); } else if i == p { } else { assert(q1[i] == dq[i - 1]); }
        }
    }
}
pub proof fn lemma_peek_keeps_ge(q1: Seq<Entry>, q2: Seq<Entry>, bound: u64, n: int, t: u64)
    requires all_ge(q1, t), peek_rel(q1, q2, bound, n)
    ensures all_ge(q2, t)
{
    assert forall|i: int| 0 <= i < q2.len() implies (#[trigger] q2[i]).time >= t by { assert(q2[i] == q1[n + i]); }
}
pub proof fn lemma_head_later_than(q: Seq<Entry>, t: u64)
    requires sorted(q), q.len() == 0 || q[0].time > t
    ensures all_later(q, t)
{
    assert forall|i: int| 0 <= i < q.len() implies (#[trigger] q[i]).time > t by { if i > 0 { assert(key_le(q[0], q[i])); } }
}
pub proof fn lemma_head_later(q: Seq<Entry>, t: u64)
    requires sorted(q), all_ge(q, t), q.len() == 0 || q[0].time > t
    ensures all_later(q, t)
{
    assert forall|i: int| 0 <= i < q.len() implies (#[trigger] q[i]).time > t by { if i > 0 { assert(key_le(q[0], q[i])); } }
}

impl Simulation {
//@item src=nexosim/src/simulation.rs kind=fn name=step_to_next_bounded within=`impl Simulation` rules=GUARDTY,REFPAT,REFUSE,CLOSURE,BREAKVAL,GUARD,MAPUNIT,EXECMUT,LAGCMP,ARMBRACE,TIMEWRITE,RET,RETACTION,RETKEY canary=1
    #[verifier::exec_allows_no_decreases_clause]   //@ termination is proved in the functional pass (unit sim); under havoc it depends on fairness
    fn step_to_next_bounded(
        &mut self,
        upper_time_bound: MonotonicTime,
    ) -> (res: Result<Option<MonotonicTime>, ExecutionError>)
        //@[
        requires
            !old(self).scheduler_queue.locked(),
            sync_ok(old(self).clock.syncs(), old(self).time.val()),
        ensures
            !final(self).scheduler_queue.locked(),                                               //@ C08 #lock-released-at-exit
            final(self).time.val() >= old(self).time.val(),                                      //@ C01 #time-never-decreases
            sync_ok(final(self).clock.syncs(), final(self).time.val()),                          //@ C18 #clock-never-synchronised-ahead-of-the-time
            res matches Ok(Some(tm)) ==> tm.t == final(self).time.val() && tm.t <= upper_time_bound.t,
            res matches Ok(None) ==> final(self).time.val() == old(self).time.val() && final(self).clock.syncs() == old(self).clock.syncs(),
        //@]
    {
        // Function pulling the next action. If the action is periodic, it is
        // immediately re-scheduled.
        fn pull_next_action(scheduler_queue: &mut SchedulerQueue) -> (action: Action)
            //@[
            requires
                old(scheduler_queue).view().len() > 0,
                sorted(old(scheduler_queue).view()),
                no_zero_period(old(scheduler_queue).view()),
                old(scheduler_queue).locked(),
            ensures
                final(scheduler_queue).locked(),
                sorted(final(scheduler_queue).view()),
                no_zero_period(final(scheduler_queue).view()),                                    //@ C08,C10
                action.aid() == old(scheduler_queue).view()[0].aid,
                action.cancelled() == old(scheduler_queue).view()[0].cancelled,
                pull_rel(old(scheduler_queue).view(), final(scheduler_queue).view()),             //@ C10,C08,C01 #pull-reinserts-periodic-at-t-plus-p
            //@]
        {
            let ghost q0 = scheduler_queue.view();                                               //@
            let ((time, channel_id), action) = scheduler_queue.pull().unwrap();
            //@[
            proof {
                lemma_sorted_subrange(q0, 1, q0.len() as int);
                assert(q0.drop_first() == q0.subrange(1, q0.len() as int));
                assert forall|i: int| 0 <= i < q0.drop_first().len() implies (#[trigger] q0.drop_first()[i]).period != Some(0nat) by {
                    assert(q0.drop_first()[i] == q0[i + 1]);
                }
            }
            //@]
            if let Some((action_clone, period)) = action.next() {
                let ghost q1 = scheduler_queue.view();                                           //@
                scheduler_queue.insert((time + period, channel_id), action_clone);
                //@[
                proof {
                    let e = entry_of((time_add(time, period), channel_id), action_clone);
                    let p = choose|p: int| 0 <= p <= q1.len()
                        && #[trigger] scheduler_queue.view() == q1.insert(p, e)
                        && (forall|i: int| 0 <= i < p ==> key_le(#[trigger] q1[i], e))
                        && (forall|i: int| p <= i < q1.len() ==> !key_le(#[trigger] q1[i], e));
                    assert(is_reins(q0[0], e));                                                   //@ C10,C08,C01 #reinserted-at-t-plus-period
                    assert forall|i: int| 0 <= i < scheduler_queue.view().len() implies (#[trigger] scheduler_queue.view()[i]).period != Some(0nat) by {   //@ C08,C10
                        if i < p { assert(scheduler_queue.view()[i] == q1[i]); }                   //@ C08,C10
                        else if i == p { }                                                       //@ C08,C10
                        else { assert(scheduler_queue.view()[i] == q1[i - 1]); }                  //@ C08,C10
                    }                                                                            //@ C08,C10
                }
                //@]
            }

            action
        }

        // Closure returning the next key which time stamp is no older than the
        // upper bound, if any. Cancelled actions are pulled and discarded.
        fn peek_next_key(scheduler_queue: &mut SchedulerQueue, upper_time_bound: MonotonicTime) -> (r: Option<(MonotonicTime, usize)>)
            //@[
            requires
                old(scheduler_queue).locked(),
            ensures
                final(scheduler_queue).locked(),
                exists|n: int| peek_rel(old(scheduler_queue).view(), final(scheduler_queue).view(), upper_time_bound.t, n),   //@ C09,C01 #discards-only-cancelled-heads
                r matches Some(k) ==> final(scheduler_queue).view().len() > 0 && final(scheduler_queue).view()[0].time == k.0.t
                    && final(scheduler_queue).view()[0].origin == k.1 && !final(scheduler_queue).view()[0].cancelled
                    && k.0.t <= upper_time_bound.t,                                                                          //@ C09,C01 #next-key-is-live-head
                r is None ==> final(scheduler_queue).view().len() == 0 || final(scheduler_queue).view()[0].time > upper_time_bound.t,   //@ C01,C08 #none-means-nothing-due
            //@]
        {
            //@[
            let ghost q0 = scheduler_queue.view();
            let ghost mut n: int = 0;
            proof { assert(q0.subrange(0, q0.len() as int) == q0); }
            //@]
            let mut __brk: Option<(MonotonicTime, usize)>;
            loop
                //@[
                invariant
                    scheduler_queue.locked(),
                    q0 == old(scheduler_queue).view(),
                    peek_rel(q0, scheduler_queue.view(), upper_time_bound.t, n),                  //@ C09,C01 #discards-only-cancelled-heads
                ensures
                    scheduler_queue.locked(),
                    peek_rel(q0, scheduler_queue.view(), upper_time_bound.t, n),                  //@ C09,C01 #discards-only-cancelled-heads
                    __brk matches Some(k) ==> scheduler_queue.view().len() > 0 && scheduler_queue.view()[0].time == k.0.t
                        && scheduler_queue.view()[0].origin == k.1 && !scheduler_queue.view()[0].cancelled
                        && k.0.t <= upper_time_bound.t,                                           //@ C09,C01 #next-key-is-live-head
                    __brk is None ==> scheduler_queue.view().len() == 0 || scheduler_queue.view()[0].time > upper_time_bound.t,   //@ C01,C08 #none-means-nothing-due
                decreases scheduler_queue.view().len(),                                          //@ C08 #peek-terminates
                //@]
            {
                match scheduler_queue.peek() {
                    Some((key, action)) if key.0 <= upper_time_bound => {
                        if !action.is_cancelled() {
                            { __brk = Some(*key); break; }
                        }
                        // Discard cancelled actions.
                        let ghost q1 = scheduler_queue.view();                                   //@
                        scheduler_queue.pull();
                        //@[
                        proof {
                            assert(q1[0] == q0[n]);
                            assert(scheduler_queue.view() == q0.subrange(n + 1, q0.len() as int));
                            n = n + 1;
                        }
                        //@]
                    }
                    _ => { __brk = None; break; },
                }
            }
            __brk
        }

        // A terminated simulation must neither advance time nor process
        // actions.
        if self.is_terminated {
            return Err(ExecutionError::Terminated);
        }

        // Move to the next scheduled time.
        lock_queue(&mut self.scheduler_queue, &self.time);
        //@[
        let ghost qh = self.scheduler_queue.view();       // whatever the other threads left: only inv is known
        let ghost time0 = self.time.val();
        //@]
        let mut current_key = match peek_next_key(&mut self.scheduler_queue, upper_time_bound) {
            Some(key) => key,
            None => {
                //@[
                proof {
                    let qa = self.scheduler_queue.view();
                    let n0 = choose|n: int| peek_rel(qh, qa, upper_time_bound.t, n);
                    lemma_peek_preserves(qh, qa, upper_time_bound.t, n0);
                    assert forall|i: int| 0 <= i < qa.len() implies (#[trigger] qa[i]).time > time0 by { assert(qa[i] == qh[n0 + i]); }
                }
                //@]
                unlock_queue(&mut self.scheduler_queue, &self.time); return Ok(None)
            }
        };
        //@[
        let ghost t = current_key.0.t;
        proof {
            let qa = self.scheduler_queue.view();
            let n0 = choose|n: int| peek_rel(qh, qa, upper_time_bound.t, n);
            lemma_peek_preserves(qh, qa, upper_time_bound.t, n0);
            assert(qa[0] == qh[n0]);
            assert forall|i: int| 0 <= i < qa.len() implies (#[trigger] qa[i]).time >= t by {
                if i > 0 { assert(key_le(qa[0], qa[i])); }
            }
        }
        //@]
        write_time_locked(&mut self.time, current_key.0, &self.scheduler_queue);

        loop
            //@[
            invariant
                self.scheduler_queue.locked(),
                self.clock.syncs() == old(self).clock.syncs(), sync_ok(old(self).clock.syncs(), old(self).time.val()),
                t == current_key.0.t, self.time.val() == t, t >= old(self).time.val(), t <= upper_time_bound.t,
                sorted(self.scheduler_queue.view()), no_zero_period(self.scheduler_queue.view()),
                all_ge(self.scheduler_queue.view(), t),
                self.scheduler_queue.view().len() > 0,
            //@]
        {
            let ghost qb = self.scheduler_queue.view();   //@
            let action = pull_next_action(&mut self.scheduler_queue);
            //@[
            let ghost q1 = self.scheduler_queue.view();
            proof { lemma_pull_keeps_ge(qb, q1, t); }
            //@]
            let mut next_key = peek_next_key(&mut self.scheduler_queue, upper_time_bound);
            //@[
            proof {
                let q2 = self.scheduler_queue.view();
                let n = choose|n: int| peek_rel(q1, q2, upper_time_bound.t, n);
                lemma_peek_preserves(q1, q2, upper_time_bound.t, n);
                lemma_peek_keeps_ge(q1, q2, upper_time_bound.t, n, t);
            }
            //@]
            if next_key != Some(current_key) {
                // Since there are no other actions with the same origin and the
                // same time, the action is spawned immediately.
                action.spawn_and_forget(&mut self.executor);
            } else {
                // To ensure that their relative order of execution is
                // preserved, all actions with the same origin are executed
                // sequentially within a single compound future.
                let mut action_sequence = SeqFuture::new();
                action_sequence.push(action.into_future());
                loop
                    //@[
                    invariant_except_break
                        self.scheduler_queue.view().len() > 0,
                    invariant
                        self.scheduler_queue.locked(),
                        self.clock.syncs() == old(self).clock.syncs(),
                        t == current_key.0.t, self.time.val() == t, t >= old(self).time.val(),
                        sorted(self.scheduler_queue.view()), no_zero_period(self.scheduler_queue.view()),
                        all_ge(self.scheduler_queue.view(), t),
                        next_key matches Some(k) ==> self.scheduler_queue.view().len() > 0 && self.scheduler_queue.view()[0].time == k.0.t,
                        next_key is None ==> self.scheduler_queue.view().len() == 0 || self.scheduler_queue.view()[0].time > upper_time_bound.t,
                        t <= upper_time_bound.t,
                    //@]
                {
                    let ghost qb = self.scheduler_queue.view();   //@
                    let action = pull_next_action(&mut self.scheduler_queue);
                    //@[
                    let ghost q1 = self.scheduler_queue.view();
                    proof { lemma_pull_keeps_ge(qb, q1, t); }
                    //@]
                    action_sequence.push(action.into_future());
                    next_key = peek_next_key(&mut self.scheduler_queue, upper_time_bound);
                    //@[
                    proof {
                        let q2 = self.scheduler_queue.view();
                        let n = choose|n: int| peek_rel(q1, q2, upper_time_bound.t, n);
                        lemma_peek_preserves(q1, q2, upper_time_bound.t, n);
                        lemma_peek_keeps_ge(q1, q2, upper_time_bound.t, n, t);
                    }
                    //@]
                    if next_key != Some(current_key) {
                        break;
                    }
                }

                // Spawn a compound future that sequentially polls all actions
                // targeting the same mailbox.
                self.executor.spawn_and_forget(action_sequence);
            }

            current_key = match next_key {
                // If the next action is scheduled at the same time, update the
                // key and continue.
                Some(k) if k.0 == current_key.0 => k,
                // Otherwise wait until all actions have completed and return.
                _ => {
                    //@[
                    proof {
                        // every remaining entry is strictly later than the new time: the invariant holds again
                        lemma_head_later(self.scheduler_queue.view(), t);
                    }
                    //@]
                    unlock_queue(&mut self.scheduler_queue, &self.time); // make sure the queue's mutex is released.

                    let current_time = current_key.0;
                    if let SyncStatus::OutOfSync(lag) = self.clock.synchronize(current_time) {
                        if let Some(tolerance) = &self.clock_tolerance {
                            if dur_gt(&lag, tolerance) {
                                self.is_terminated = true;

                                return Err(ExecutionError::OutOfSync(lag));
                            }
                        }
                    }
                    self.run()?;

                    return Ok(Some(current_time));
                }
            };
        }
    }
//@end

//@item src=nexosim/src/simulation.rs kind=fn name=step_until_unchecked within=`impl Simulation` rules=HOOK,GUARD,MAPUNIT,TIMEWRITE,RET
    #[verifier::exec_allows_no_decreases_clause]   //@ termination is proved in the functional pass (unit sim); under havoc it depends on fairness
    fn step_until_unchecked(&mut self, target_time: MonotonicTime) -> (res: Result<(), ExecutionError>)
        //@[
        requires
            !old(self).scheduler_queue.locked(),
            target_time.t >= old(self).time.val(),
            sync_ok(old(self).clock.syncs(), old(self).time.val()),
        ensures
            !final(self).scheduler_queue.locked(),                                               //@ C08 #lock-released-at-exit
            final(self).time.val() >= old(self).time.val(),                                      //@ C01 #time-never-decreases
            sync_ok(final(self).clock.syncs(), final(self).time.val()),                          //@ C18 #clock-never-synchronised-ahead-of-the-time
            res is Ok ==> final(self).time.val() == target_time.t,                               //@ C01 #reaches-target
        //@]
    {
        loop
            //@[
            invariant
                !self.scheduler_queue.locked(),
                old(self).time.val() <= self.time.val() <= target_time.t,
                sync_ok(self.clock.syncs(), self.time.val()),                                    //@ C18 #clock-never-synchronised-ahead-of-the-time
            //@]
        {
            match self.step_to_next_bounded(target_time) {
                // The target time was reached exactly.
                Ok(Some(t)) if t == target_time => return Ok(()),
                // No actions are scheduled before or at the target time.
                Ok(None) => {
                    // Update the simulation time. The scheduler queue must be
                    // locked while the time is updated, and inspected again:
                    // since the lock was released, a scheduler handle on another
                    // thread may have scheduled an action due before the target
                    // time, which was validated against the former time.
                    lock_queue(&mut self.scheduler_queue, &self.time);
                    let ghost qh = self.scheduler_queue.view();     //@
                    let next_is_due = match self.scheduler_queue.peek() {
                        Some((key, _)) => key.0 <= target_time,
                        None => false,
                    };
                    if !next_is_due {
                        //@[
                        proof {
                            // nothing is due up to the target: moving the time to the target keeps every deadline in the future
                            lemma_head_later_than(qh, target_time.t);
                        }
                        //@]
                        write_time_locked(&mut self.time, target_time, &self.scheduler_queue);
                    }
                    unlock_queue(&mut self.scheduler_queue, &self.time);
                    if next_is_due {
                        continue;
                    }
                    self.clock.synchronize(target_time);
                    return Ok(());
                }
                Err(e) => return Err(e),
                // The target time was not reached yet.
                _ => {
                }
            }
        }
    }
//@end
}

} // verus!
fn main() {}
