//@unit xsink
//@exec
//@props C17
// BOUNDED executable stand-in for the event sinks (labelled bounded, never counted as proved): the REAL text of
// ports/sink/event_buffer.rs and ports/sink/event_slot.rs (each file whole) and the three sink traits of ports/sink.rs is
// cut from /repo on every run with NO rewrite rule and compiled as it stands (std only). `main` runs every sequence of
// operations up to the bound on one thread - write (through either of two writer handles), next, open, close, drain
// (`__try_fold`) - for buffer capacities 0..3, initially open or closed, and compares every result with the first three
// clauses of C17: a buffer yields what was written in FIFO order and, on overflow, retains exactly the most recent
// `capacity` events; a slot yields the most recently written event once and then nothing until a new write; a closed sink
// ignores writes until it is reopened. It is the fallback of unit sink when a refactoring leaves the proof route undecided.
#![allow(dead_code, unused_imports, unused_variables, unused_mut, unused_macros, unreachable_code)]
use std::collections::BTreeMap;
use std::panic;

pub mod sink {
//@item src=nexosim/src/ports/sink.rs kind=trait name=EventSink
//@end
//@item src=nexosim/src/ports/sink.rs kind=trait name=EventSinkWriter
//@end
//@item src=nexosim/src/ports/sink.rs kind=trait name=EventSinkStream
//@end
    pub mod event_buffer {
//@item src=nexosim/src/ports/sink/event_buffer.rs kind=filehead name=event_buffer id=file-event_buffer
//@end
    }
    pub mod event_slot {
//@item src=nexosim/src/ports/sink/event_slot.rs kind=filehead name=event_slot id=file-event_slot
//@end
    }
}

//@include inc/xsink_harness.rs
