#[derive(Clone, Debug)]
struct E {
    time: u64,      // deadline offset from the start time
    origin: usize,
    cancelled: bool,
    period: u64,    // 0 = one-shot
    resched: u64,   // 0 = the handler schedules nothing; k = it schedules a follow-up k seconds later
    pend: bool,     // the action's future is Pending on its first poll
}
#[derive(Clone, Debug, PartialEq)]
enum Op {
    Step,
    StepUntil(u64), // offset from the start time
    Process,
}
#[derive(Clone, Debug)]
struct Scenario {
    entries: Vec<E>,
    op: Op,
    lifo: bool,
    terminated: bool,
    lag: Option<u64>,
    tolerance: Option<u64>,
}
const START: u64 = 10;

fn scenario_json(s: &Scenario) -> String {
    let es: Vec<String> = s
        .entries
        .iter()
        .map(|e| {
            format!(
                "{{\"time\":{},\"origin\":{},\"cancelled\":{},\"period\":{},\"resched\":{},\"pend\":{}}}",
                e.time, e.origin, e.cancelled, e.period, e.resched, e.pend
            )
        })
        .collect();
    let op = match s.op {
        Op::Step => "\"step\"".to_string(),
        Op::StepUntil(t) => format!("{{\"step_until\":{}}}", t),
        Op::Process => "\"process\"".to_string(),
    };
    format!(
        "{{\"start\":{},\"entries\":[{}],\"op\":{},\"lifo\":{},\"terminated\":{},\"lag\":{},\"tolerance\":{}}}",
        START,
        es.join(","),
        op,
        s.lifo,
        s.terminated,
        s.lag.map(|x| x.to_string()).unwrap_or("null".into()),
        s.tolerance.map(|x| x.to_string()).unwrap_or("null".into())
    )
}

fn build(sc: &Scenario) -> Simulation {
    EXEC_LOG.lock().unwrap().clear();
    TIME_WRITES.lock().unwrap().clear();
    {
        let mut s = SYNC_LOG.lock().unwrap();
        s.clear();
        s.push(START);
    }
    RUNS.store(0, AtomicOrdering::Relaxed);
    FUEL.store(20_000, AtomicOrdering::Relaxed);
    let time = AtomicTime::new(START);
    let queue: Arc<Mutex<SchedulerQueue>> = Arc::new(Mutex::new(PriorityQueue::new()));
    let env = Env { queue: queue.clone(), time: time.clone() };
    {
        let mut q = queue.lock().unwrap();
        for (i, e) in sc.entries.iter().enumerate() {
            q.insert(
                (MonotonicTime(START + e.time), e.origin),
                Action {
                    series: i as u64 + 1,
                    deadline: Arc::new(AtomicU64::new(START + e.time)),
                    cancelled: Arc::new(AtomicU64::new(e.cancelled as u64)),
                    period: if e.period > 0 { Some(Duration::from_secs(e.period)) } else { None },
                    resched: e.resched,
                    origin: e.origin,
                    pend: e.pend,
                    env: env.clone(),
                },
            );
        }
    }
    Simulation {
        executor: Executor::new(sc.lifo),
        scheduler_queue: queue,
        time,
        clock: Box::new(ScriptClock { lag: sc.lag.map(Duration::from_secs) }),
        clock_tolerance: sc.tolerance.map(Duration::from_secs),
        timeout: Duration::ZERO,
        observers: Vec::new(),
        model_names: Vec::new(),
        is_terminated: sc.terminated,
    }
}

/// Reference semantics, straight from the property statements: which (series, time) pairs must be executed.
#[derive(Clone, Debug)]
struct R {
    series: u64,
    time: u64,
    origin: usize,
    cancelled: bool,
    period: u64,
    resched: u64,
    seq: u64,       // scheduling order (u64::MAX: order not determined by the statement)
}
struct Expect {
    executed: Vec<(u64, u64, usize, u64)>, // (series, time, origin, seq) in chronological order
    syncs: Vec<u64>,
    final_time: u64,
    pending: Vec<R>,
}
fn reference(sc: &Scenario) -> Expect {
    let mut q: Vec<R> = sc
        .entries
        .iter()
        .enumerate()
        .map(|(i, e)| R {
            series: i as u64 + 1,
            time: START + e.time,
            origin: e.origin,
            cancelled: e.cancelled,
            period: e.period,
            resched: e.resched,
            seq: i as u64,
        })
        .collect();
    let mut seq = q.len() as u64;
    let mut now = START;
    let mut executed = Vec::new();
    let mut syncs = Vec::new();
    let (bound, many) = match sc.op {
        Op::Step => (u64::MAX, false),
        Op::StepUntil(t) => (START + t, true),
        Op::Process => (0, false),
    };
    if sc.op == Op::Process {
        executed.push((999, START, 0, u64::MAX));
    }
    if sc.op != Op::Process {
        loop {
            let t = q.iter().filter(|r| !r.cancelled && r.time <= bound).map(|r| r.time).min();
            let t = match t {
                Some(t) => t,
                None => break,
            };
            now = t;
            syncs.push(t);
            let mut due: Vec<R> = q.iter().filter(|r| !r.cancelled && r.time == t).cloned().collect();
            due.sort_by_key(|r| (r.origin, r.seq));
            q.retain(|r| !(r.time == t && !r.cancelled));
            // periodic successors are scheduled when the occurrence fires (pull order = queue order)
            for r in &due {
                if r.period > 0 {
                    let mut n = r.clone();
                    n.time = t + r.period;
                    n.seq = seq;
                    seq += 1;
                    q.push(n);
                }
            }
            for r in &due {
                executed.push((r.series, t, r.origin, r.seq));
                if r.resched > 0 {
                    q.push(R { series: r.series * 100 + 1, time: t + r.resched, origin: r.origin, cancelled: false,
                               period: 0, resched: 0, seq: u64::MAX });
                }
            }
            if !many {
                break;
            }
        }
        if many {
            if now != bound || syncs.is_empty() {
                syncs.push(bound);
            }
            now = bound;
        }
    }
    Expect { executed, syncs, final_time: now, pending: q }
}

struct Failure {
    check: &'static str,
    props: &'static str,
    detail: String,
}
fn expect_json(e: &Expect) -> String {
    let ex: Vec<String> = e.executed.iter().map(|(s, t, o, q)| format!("[{},{},{},{}]", s, t, o, if *q == u64::MAX { -1i64 } else { *q as i64 })).collect();
    let sy: Vec<String> = e.syncs.iter().map(|x| x.to_string()).collect();
    format!("{{\"executed\":[{}],\"syncs\":[{}],\"final_time\":{}}}", ex.join(","), sy.join(","), e.final_time)
}

fn run_scenario(sc: &Scenario) -> Vec<Failure> {
    let mut fails = Vec::new();
    let mut sim = build(sc);
    let sc2 = sc.clone();
    let res = panic::catch_unwind(panic::AssertUnwindSafe(|| match sc2.op {
        Op::Step => sim.step(),
        Op::StepUntil(t) => sim.step_until(MonotonicTime(START + t)),
        Op::Process => {
            let env = Env { queue: sim.scheduler_queue.clone(), time: sim.time.clone() };
            sim.process(Action { series: 999, deadline: Arc::new(AtomicU64::new(START)), cancelled: Arc::new(AtomicU64::new(0)),
                                 period: None, resched: 0, origin: 0, pend: false, env })
        }
    }));
    let log = EXEC_LOG.lock().unwrap().clone();
    let writes = TIME_WRITES.lock().unwrap().clone();
    let syncs = SYNC_LOG.lock().unwrap().clone();
    let runs = RUNS.load(AtomicOrdering::Relaxed);
    let res = match res {
        Ok(r) => r,
        Err(p) => {
            let msg = p.downcast_ref::<&str>().map(|s| s.to_string()).or(p.downcast_ref::<String>().cloned()).unwrap_or_default();
            if msg.contains("OUT-OF-FUEL") {
                fails.push(Failure { check: "terminates", props: "C08", detail: "the call did not return (fuel exhausted)".into() });
            } else {
                fails.push(Failure { check: "no-panic", props: "C01,C11", detail: format!("the call panicked: {}", msg) });
            }
            return fails;
        }
    };
    let now = sim.time().0;
    // ---- C11: a terminated simulation
    if sc.terminated {
        let ok = matches!(res, Err(ExecutionError::Terminated));
        if !ok || now != START || runs != 0 || !log.is_empty() {
            fails.push(Failure { check: "terminated-no-effect", props: "C11",
                detail: format!("terminated simulation: returned Terminated={}, time {} -> {}, executor runs {}, actions executed {}", ok, START, now, runs, log.len()) });
        }
        return fails;
    }
    // ---- C18: lag beyond the tolerance
    let exp = reference(sc);
    let over = match (sc.lag, sc.tolerance) {
        (Some(l), Some(t)) => l > t,
        _ => false,
    };
    if over && !exp.syncs.is_empty() && sc.op != Op::Process {
        let first_sync_is_step = !exp.executed.is_empty();
        if first_sync_is_step {
            let ok = matches!(res, Err(ExecutionError::OutOfSync(_)));
            if !ok || runs != 0 || !log.is_empty() {
                fails.push(Failure { check: "out-of-sync-stops-the-step", props: "C18",
                    detail: format!("lag {:?} > tolerance {:?}: OutOfSync returned={}, executor runs {}, executed {}", sc.lag, sc.tolerance, ok, runs, log.len()) });
            }
            if ok && !sim.is_terminated {
                fails.push(Failure { check: "out-of-sync-terminates", props: "C11", detail: "OutOfSync did not terminate the simulation".into() });
            }
        }
        return fails;
    }
    if matches!(res, Err(ExecutionError::OutOfSync(_))) {
        // no tolerance configured, or a lag within it: lags are to be ignored (C18)
        fails.push(Failure { check: "out-of-sync-without-cause", props: "C18",
            detail: format!("OutOfSync returned although lag {:?} does not exceed tolerance {:?}", sc.lag, sc.tolerance) });
        return fails;
    }
    if res.is_err() {
        fails.push(Failure { check: "unexpected-error", props: "C01,C11", detail: "the call returned an error in a fault-free scenario".into() });
        return fails;
    }
    // ---- C01: time
    let mut prev = START;
    for w in &writes {
        if *w < prev {
            fails.push(Failure { check: "time-never-decreases", props: "C01", detail: format!("time writes {:?}", writes) });
            break;
        }
        prev = *w;
    }
    if now != exp.final_time {
        fails.push(Failure { check: "final-time", props: "C01", detail: format!("time is {} but should be {}", now, exp.final_time) });
    }
    // ---- C01 / C08: executed exactly at the deadline, chronologically
    for (s, d, t) in &log {
        if d != t {
            fails.push(Failure { check: "executed-at-its-deadline", props: "C01,C08",
                detail: format!("series {} due at {} was executed at time {}", s, d, t) });
            break;
        }
    }
    if log.windows(2).any(|w| w[0].2 > w[1].2) {
        fails.push(Failure { check: "chronological", props: "C01", detail: format!("execution times {:?}", log.iter().map(|x| x.2).collect::<Vec<_>>()) });
    }
    // ---- C01 / C09 / C10: exactly the expected occurrences
    let mut want: BTreeMap<(u64, u64), i64> = BTreeMap::new();
    for (s, t, _, _) in &exp.executed {
        *want.entry((*s, *t)).or_insert(0) += 1;
    }
    for (s, _, t) in &log {
        *want.entry((*s, *t)).or_insert(0) -= 1;
    }
    let diff: Vec<_> = want.iter().filter(|(_, v)| **v != 0).collect();
    if !diff.is_empty() {
        let mut c09 = false;
        let mut c10 = false;
        for ((s, _), _) in &diff {
            let base = if *s > 99 { *s / 100 } else { *s };
            if let Some(e) = sc.entries.get(base as usize - 1) {
                if e.cancelled { c09 = true; }
                if e.period > 0 { c10 = true; }
            }
        }
        // a cancelled entry that ran: C09 (and C10's "until it is cancelled" when it is periodic); a periodic one: C10
        let (check, props) = if c09 && c10 {
            ("cancelled-periodic-occurrence-executed", "C09,C10,C01")
        } else if c09 {
            ("cancelled-action-executed", "C09,C01")
        } else if c10 {
            ("periodic-occurrences-exactly-once-each", "C10,C01,C08")
        } else {
            ("executes-exactly-the-due-live-actions", "C01,C08")
        };
        fails.push(Failure { check, props,
            detail: format!("(series, time) -> expected minus executed: {:?}", diff) });
    }
    // ---- C07: same time + same origin in scheduling order
    let mut groups: BTreeMap<(u64, usize), Vec<(u64, u64)>> = BTreeMap::new(); // (time, origin) -> [(seq, series)]
    for (s, t, o, q) in &exp.executed {
        if *q != u64::MAX {
            groups.entry((*t, *o)).or_default().push((*q, *s));
        }
    }
    for ((t, o), v) in &groups {
        let mut v = v.clone();
        v.sort();
        let expected: Vec<u64> = v.iter().map(|x| x.1).collect();
        let actual: Vec<u64> = log.iter().filter(|x| x.2 == *t && expected.contains(&x.0)).map(|x| x.0).collect();
        if actual != expected && actual.len() == expected.len() {
            fails.push(Failure { check: "same-origin-in-scheduling-order", props: "C07",
                detail: format!("origin {} at time {}: executed series {:?}, scheduled order {:?}", o, t, actual, expected) });
            break;
        }
    }
    // ---- C18: one synchronize per new time
    if sc.op != Op::Process {
        let mut want_syncs = vec![START];
        want_syncs.extend(exp.syncs.iter());
        // a final jump that does not move the time (target == current time) may or may not repeat the synchronize:
        // the property only speaks about NEW times
        let mut alt = want_syncs.clone();
        if alt.len() >= 2 && alt[alt.len() - 1] == alt[alt.len() - 2] {
            alt.pop();
        }
        if syncs != want_syncs && syncs != alt {
            fails.push(Failure { check: "one-sync-per-new-time", props: "C18", detail: format!("synchronize was called with {:?}, expected {:?}", syncs, want_syncs) });
        }
    } else if syncs.len() != 1 {
        fails.push(Failure { check: "process-does-not-sync", props: "C18,C01", detail: format!("{:?}", syncs) });
    }
    // ---- C01: pending actions strictly in the future; C10/C08: the live future occurrences are still queued
    {
        let q = sim.scheduler_queue.lock().unwrap();
        let mut pend: Vec<(u64, u64, bool)> = q.heap.iter().map(|it| (it.key.0 .0, it.value.series, it.value.is_cancelled())).collect();
        pend.sort();
        if pend.iter().any(|(t, _, c)| *t <= now && !*c) {
            fails.push(Failure { check: "pending-strictly-later", props: "C01", detail: format!("time {} but pending (time, series, cancelled) {:?}", now, pend) });
        }
        let mut want: Vec<(u64, u64)> = exp.pending.iter().filter(|r| !r.cancelled).map(|r| (r.time, r.series)).collect();
        want.sort();
        let got: Vec<(u64, u64)> = pend.iter().filter(|x| !x.2).map(|x| (x.0, x.1)).collect();
        if got != want {
            let periodic = exp.pending.iter().any(|r| r.period > 0) || sc.entries.iter().any(|e| e.period > 0);
            fails.push(Failure { check: "live-pending-occurrences", props: if periodic { "C10,C08,C01" } else { "C08,C01" },
                detail: format!("live queue (time, series) {:?}, expected {:?}", got, want) });
        }
    }
    fails
}

fn for_each_entries(n: usize, dom: &[E], cur: &mut Vec<E>, f: &mut dyn FnMut(&Vec<E>)) {
    if cur.len() == n {
        f(cur);
        return;
    }
    for e in dom {
        cur.push(e.clone());
        for_each_entries(n, dom, cur, f);
        cur.pop();
    }
}
fn domain(times: &[u64], periods: &[u64], rescheds: &[u64], pends: &[bool]) -> Vec<E> {
    let mut d = Vec::new();
    for &time in times {
        for origin in 0..2usize {
            for cancelled in [false, true] {
                for &period in periods {
                    for &resched in rescheds {
                        for &pend in pends {
                            d.push(E { time, origin, cancelled, period, resched, pend });
                        }
                    }
                }
            }
        }
    }
    d
}

// watchdog: a stepping call that never returns (C08: "every stepping call returns") burns no fuel when the loop it spins
// in calls no stub. The scenario being run is kept here; a thread reports it if it is still the same after 30 s.
static WD_TICK: AtomicU64 = AtomicU64::new(0);
static WD_CUR: Mutex<Option<Scenario>> = Mutex::new(None);
fn watchdog() {
    std::thread::spawn(|| {
        let mut last = u64::MAX;
        let mut same = 0;
        loop {
            std::thread::sleep(Duration::from_millis(250));
            let t = WD_TICK.load(AtomicOrdering::Relaxed);
            if t == last {
                same += 1;
            } else {
                same = 0;
                last = t;
            }
            if same >= 120 {
                let cur = WD_CUR.lock().unwrap().clone();
                if let Some(sc) = cur {
                    println!("{{\"scenarios\":{},\"samples\":[],\"bound\":\"exploration stopped at the first call that did not return\",\"failures\":[{{\"check\":\"stepping-call-returns\",\"props\":\"C08\",\"count\":1,\"scenario\":{},\"expected\":{},\"detail\":\"the call had not returned after 30 s (every other scenario takes microseconds)\"}}]}}",
                        t, scenario_json(&sc), expect_json(&reference(&sc)));
                    std::process::exit(0);
                }
            }
        }
    });
}

fn main() {
    let thorough = std::env::args().any(|a| a == "--thorough");
    panic::set_hook(Box::new(|_| {})); // panics are caught and reported per scenario
    watchdog();
    let mut total = 0u64;
    let mut first: BTreeMap<&'static str, (String, String, String, String)> = BTreeMap::new();
    let mut counts: BTreeMap<&'static str, u64> = BTreeMap::new();
    let mut samples: Vec<String> = Vec::new();
    let mut run = |sc: &Scenario| {
        total += 1;
        *WD_CUR.lock().unwrap() = Some(sc.clone());
        WD_TICK.fetch_add(1, AtomicOrdering::Relaxed);
        // a few of the explored scenarios, with what the property statements demand, are written out as samples
        if total % 20011 == 7 && samples.len() < 12 {
            samples.push(format!("{{\"scenario\":{},\"expected\":{}}}", scenario_json(sc), expect_json(&reference(sc))));
        }
        for f in run_scenario(sc) {
            *counts.entry(f.check).or_insert(0) += 1;
            first.entry(f.check).or_insert((f.props.to_string(), scenario_json(sc), f.detail, expect_json(&reference(sc))));
        }
    };
    // (a) up to 2 (thorough: 3) entries over the full attribute domain, every operation, both task orders
    let full = domain(&[1, 2, 3], &[0, 1, 2], &[0, 1], &[false, true]);
    let ops = [Op::Step, Op::StepUntil(2), Op::StepUntil(4), Op::StepUntil(0)];
    let nmax = if thorough { 3 } else { 2 };
    for n in 0..=nmax {
        for_each_entries(n, &full, &mut Vec::new(), &mut |es| {
            for op in &ops {
                for lifo in [false, true] {
                    run(&Scenario { entries: es.clone(), op: op.clone(), lifo, terminated: false, lag: None, tolerance: None });
                }
            }
        });
    }
    // (b) 3 entries, reduced domain
    let mid = domain(&[1, 2], &[0, 1], &[0], &[false, true]);
    for_each_entries(3, &mid, &mut Vec::new(), &mut |es| {
        for op in &ops {
            for lifo in [false, true] {
                run(&Scenario { entries: es.clone(), op: op.clone(), lifo, terminated: false, lag: None, tolerance: None });
            }
        }
    });
    // (c) 4 and 5 (thorough: 6) one-shot entries: same-time / same-origin groups with cancelled members
    let small = domain(&[1, 2], &[0], &[0], &[false]);
    let small_p = domain(&[1, 2], &[0], &[0], &[false, true]);
    let kmax = if thorough { 6 } else { 5 };
    for n in 4..=kmax {
        let dom = if n == 4 { &small_p } else { &small };
        for_each_entries(n, dom, &mut Vec::new(), &mut |es| {
            for op in [Op::Step, Op::StepUntil(3)] {
                for lifo in [false, true] {
                    run(&Scenario { entries: es.clone(), op: op.clone(), lifo, terminated: false, lag: None, tolerance: None });
                }
            }
        });
    }
    // (d) terminated simulations, clock lags, process()
    for n in 0..=2 {
        for_each_entries(n, &mid, &mut Vec::new(), &mut |es| {
            for op in [Op::Step, Op::StepUntil(2), Op::Process] {
                run(&Scenario { entries: es.clone(), op: op.clone(), lifo: false, terminated: true, lag: None, tolerance: None });
                run(&Scenario { entries: es.clone(), op: op.clone(), lifo: false, terminated: false, lag: None, tolerance: None });
                for lag in [3u64, 7] {
                    for tol in [None, Some(5u64)] {
                        run(&Scenario { entries: es.clone(), op: op.clone(), lifo: false, terminated: false, lag: Some(lag), tolerance: tol });
                    }
                }
            }
        });
    }
    drop(run);
    let fs: Vec<String> = first
        .iter()
        .map(|(k, (props, sc, detail, exp))| {
            format!(
                "{{\"check\":\"{}\",\"props\":\"{}\",\"count\":{},\"scenario\":{},\"expected\":{},\"detail\":{:?}}}",
                k, props, counts[k], sc, exp, detail
            )
        })
        .collect();
    println!("{{\"scenarios\":{},\"samples\":[{}],\"bound\":\"{}\",\"failures\":[{}]}}", total, samples.join(","),
        if thorough { "<=3 entries full domain (3 deadlines x 2 origins x cancelled x 3 periods x handler-reschedules x pending-first-poll); 3 entries reduced; 4..6 one-shot entries; faults/terminated <=2 entries" }
        else { "<=2 entries full domain (3 deadlines x 2 origins x cancelled x 3 periods x handler-reschedules x pending-first-poll); 3 entries reduced; 4..5 one-shot entries; faults/terminated <=2 entries" },
        fs.join(","));
}
