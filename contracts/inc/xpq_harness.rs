#[derive(Clone, Copy, Debug, PartialEq)]
enum Op {
    Insert(u8),
    Pull,
    Extract(usize), // the key returned by the j-th insertion of this run
}
fn op_json(ops: &[Op]) -> String {
    let v: Vec<String> = ops
        .iter()
        .map(|o| match o {
            Op::Insert(k) => format!("\"insert({})\"", k),
            Op::Pull => "\"pull\"".to_string(),
            Op::Extract(j) => format!("\"extract(key of insertion #{})\"", j),
        })
        .collect();
    format!("[{}]", v.join(","))
}

// reference: the live entries in insertion order; the entry to yield is the first one carrying the smallest key
fn ref_min(r: &[(u8, u32)]) -> Option<usize> {
    let mut best: Option<usize> = None;
    for (i, e) in r.iter().enumerate() {
        match best {
            None => best = Some(i),
            Some(b) => {
                if e.0 < r[b].0 {
                    best = Some(i)
                }
            }
        }
    }
    best
}

type Fail = (&'static str, &'static str, String);

fn run_pq(ops: &[Op]) -> Option<Fail> {
    let mut q = pq::PriorityQueue::<u8, u32>::new();
    let mut r: Vec<(u8, u32)> = Vec::new();
    let mut next = 0u32;
    for (n, op) in ops.iter().enumerate() {
        match *op {
            Op::Insert(k) => {
                q.insert(k, next);
                r.push((k, next));
                next += 1;
            }
            Op::Pull => {
                let want = ref_min(&r).map(|i| r.remove(i));
                let got = q.pull();
                if got != want {
                    return Some(("pq-smallest-key-then-first-inserted", "C20,C07", format!("operation #{}: pull returned {:?} (key, insertion number), expected {:?}", n, got, want)));
                }
            }
            Op::Extract(_) => unreachable!(),
        }
        let want = ref_min(&r).map(|i| r[i]);
        let got = q.peek().map(|(k, v)| (*k, *v));
        if got != want {
            return Some(("pq-smallest-key-then-first-inserted", "C20,C07", format!("after operation #{}: peek shows {:?} (key, insertion number), expected {:?}", n, got, want)));
        }
    }
    // drain
    loop {
        let want = ref_min(&r).map(|i| r.remove(i));
        let got = q.pull();
        if got != want {
            return Some(("pq-smallest-key-then-first-inserted", "C20,C07", format!("draining: pull returned {:?}, expected {:?}", got, want)));
        }
        if got.is_none() {
            break;
        }
    }
    None
}

fn run_ipq(ops: &[Op]) -> Option<Fail> {
    let mut q = ipq::IndexedPriorityQueue::<u8, u32>::new();
    let mut r: Vec<(u8, u32)> = Vec::new();
    let mut keys: Vec<ipq::InsertKey> = Vec::new();
    let mut next = 0u32;
    for (n, op) in ops.iter().enumerate() {
        match *op {
            Op::Insert(k) => {
                keys.push(q.insert(k, next));
                r.push((k, next));
                next += 1;
            }
            Op::Pull => {
                let want = ref_min(&r).map(|i| r.remove(i));
                let got = q.pull();
                if got != want {
                    return Some(("ipq-smallest-key-then-first-inserted", "C20", format!("operation #{}: pull returned {:?} (key, insertion number), expected {:?}", n, got, want)));
                }
            }
            Op::Extract(j) => {
                if j >= keys.len() {
                    continue; // no such insertion yet: the operation is skipped
                }
                let want = r.iter().position(|e| e.1 == j as u32).map(|i| r.remove(i));
                let got = q.extract(keys[j]);
                if got != want {
                    let check = if want.is_none() { "ipq-stale-key-designates-nothing" } else { "ipq-extract-removes-exactly-its-entry" };
                    return Some((check, "C20", format!("operation #{}: extract with the key of insertion #{} returned {:?} (key, insertion number), expected {:?}", n, j, got, want)));
                }
            }
        }
        if q.len() != r.len() {
            return Some(("ipq-extract-removes-exactly-its-entry", "C20", format!("after operation #{}: len() is {}, expected {}", n, q.len(), r.len())));
        }
        let want = ref_min(&r).map(|i| r[i]);
        let got = q.peek().map(|(k, v)| (*k, *v));
        if got != want || q.peek_key().copied() != want.map(|w| w.0) {
            return Some(("ipq-smallest-key-then-first-inserted", "C20", format!("after operation #{}: peek shows {:?} (key, insertion number), expected {:?}", n, got, want)));
        }
    }
    // every key still designates its own entry, or nothing
    for j in 0..keys.len() {
        if j % 2 == 1 {
            let want = r.iter().position(|e| e.1 == j as u32).map(|i| r.remove(i));
            let got = q.extract(keys[j]);
            if got != want {
                let check = if want.is_none() { "ipq-stale-key-designates-nothing" } else { "ipq-extract-removes-exactly-its-entry" };
                return Some((check, "C20", format!("final sweep: extract with the key of insertion #{} returned {:?}, expected {:?}", j, got, want)));
            }
        }
    }
    loop {
        let want = ref_min(&r).map(|i| r.remove(i));
        let got = q.pull();
        if got != want {
            return Some(("ipq-smallest-key-then-first-inserted", "C20", format!("draining: pull returned {:?}, expected {:?}", got, want)));
        }
        if got.is_none() {
            break;
        }
    }
    None
}

fn enumerate(alphabet: &[Op], depth: usize, f: fn(&[Op]) -> Option<Fail>, total: &mut u64, samples: &mut Vec<String>,
             first: &mut BTreeMap<&'static str, (String, String, String)>, counts: &mut BTreeMap<&'static str, u64>) {
    let base = alphabet.len();
    for len in 1..=depth {
        let mut idx = vec![0usize; len];
        loop {
            let ops: Vec<Op> = idx.iter().map(|i| alphabet[*i]).collect();
            *total += 1;
            {
                let mut g = WD_CUR.lock().unwrap();
                g.clear();
                g.extend_from_slice(&ops);
            }
            WD_TICK.fetch_add(1, std::sync::atomic::Ordering::Relaxed);
            if *total % 99_991 == 7 && samples.len() < 8 {
                samples.push(op_json(&ops));
            }
            let r = panic::catch_unwind(|| f(&ops));
            let fl = match r {
                Ok(x) => x,
                Err(_) => Some(("queue-panicked", "C20", "the queue panicked".to_string())),
            };
            if let Some((check, props, detail)) = fl {
                *counts.entry(check).or_insert(0) += 1;
                first.entry(check).or_insert((props.to_string(), op_json(&ops), detail));
            }
            let mut i = 0;
            while i < len {
                idx[i] += 1;
                if idx[i] < base {
                    break;
                }
                idx[i] = 0;
                i += 1;
            }
            if i == len {
                break;
            }
        }
    }
}

// watchdog: a queue operation that never returns (a mutated sift loop) is reported with the sequence that was running
static WD_TICK: std::sync::atomic::AtomicU64 = std::sync::atomic::AtomicU64::new(0);
static WD_CUR: std::sync::Mutex<Vec<Op>> = std::sync::Mutex::new(Vec::new());
fn watchdog() {
    std::thread::spawn(|| {
        let mut last = u64::MAX;
        let mut same = 0;
        loop {
            std::thread::sleep(std::time::Duration::from_millis(250));
            let t = WD_TICK.load(std::sync::atomic::Ordering::Relaxed);
            if t == last {
                same += 1;
            } else {
                same = 0;
                last = t;
            }
            if same >= 120 {
                let cur = WD_CUR.lock().unwrap().clone();
                println!("{{\"scenarios\":{},\"samples\":[],\"bound\":\"exploration stopped at the first operation that did not return\",\"failures\":[{{\"check\":\"queue-operation-returns\",\"props\":\"C20\",\"count\":1,\"scenario\":{},\"detail\":\"the sequence had not finished after 30 s (every other one takes microseconds)\"}}]}}", t, op_json(&cur));
                std::process::exit(0);
            }
        }
    });
}

fn main() {
    let thorough = std::env::args().any(|a| a == "--thorough");
    panic::set_hook(Box::new(|_| {}));
    watchdog();
    let mut total = 0u64;
    let mut samples = Vec::new();
    let mut first = BTreeMap::new();
    let mut counts = BTreeMap::new();
    let pq_alpha = [Op::Insert(0), Op::Insert(1), Op::Insert(2), Op::Pull];
    let ipq_alpha = [Op::Insert(0), Op::Insert(1), Op::Insert(2), Op::Pull, Op::Extract(0), Op::Extract(1), Op::Extract(2), Op::Extract(3), Op::Extract(4)];
    let (dpq, dipq) = if thorough { (12, 8) } else { (10, 7) };
    enumerate(&pq_alpha, dpq, run_pq, &mut total, &mut samples, &mut first, &mut counts);
    enumerate(&ipq_alpha, dipq, run_ipq, &mut total, &mut samples, &mut first, &mut counts);
    let fs: Vec<String> = first
        .iter()
        .map(|(k, (props, sc, detail))| format!("{{\"check\":\"{}\",\"props\":\"{}\",\"count\":{},\"scenario\":{},\"detail\":{:?}}}", k, props, counts[k], sc, detail))
        .collect();
    println!("{{\"scenarios\":{},\"samples\":[{}],\"bound\":\"PriorityQueue: every sequence of up to {} operations over insert(3 keys)/pull, peek compared after every operation, then drained; IndexedPriorityQueue: every sequence of up to {} operations over insert(3 keys)/pull/extract(key of one of the first 5 insertions), len/peek/peek_key compared after every operation, then a sweep of extracts and a drain\",\"failures\":[{}]}}",
        total, samples.join(","), dpq, dipq, fs.join(","));
}
