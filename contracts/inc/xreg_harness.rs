#[derive(Clone, Debug)]
struct Node {
    name: String,       // unqualified name as given by the user ("" = none given)
    len: usize,         // messages queued in its mailbox when the executor reports
    tag: usize,         // identity of the mailbox
    children: Vec<Node>,
}
struct Leaf;
impl Model for Leaf {}
struct Proto(Node);
impl ProtoModel for Proto {
    type Model = Leaf;
    fn build(self, cx: &mut BuildContext<Self>) -> Leaf {
        for c in self.0.children {
            let (len, tag, name) = (c.len, c.tag, c.name.clone());
            cx.add_submodel(Proto(c), Mailbox::scripted(len, tag), name);
        }
        Leaf
    }
}
struct NoClock;
impl Clock for NoClock {
    fn synchronize(&mut self, _deadline: MonotonicTime) -> SyncStatus {
        SyncStatus::Synchronized
    }
}

fn node_json(n: &Node) -> String {
    let cs: Vec<String> = n.children.iter().map(node_json).collect();
    format!("{{\"name\":{:?},\"queued\":{},\"children\":[{}]}}", n.name, n.len, cs.join(","))
}
fn qualify(parent: Option<&str>, n: &Node, out: &mut Vec<(usize, String, usize)>) {
    let own = if n.name.is_empty() { "<unknown>".to_string() } else { n.name.clone() };
    let q = match parent {
        Some(p) => format!("{}.{}", p, own),
        None => own,
    };
    out.push((n.tag, q.clone(), n.len));
    for c in &n.children {
        qualify(Some(&q), c, out);
    }
}

// registers the forest through the real SimInit::add_model and initialises it through the real SimInit::init;
// `early` = number of init / message events that had already happened when SimInit::init was entered
fn build_sim(forest: &[Node]) -> (Result<Simulation, ExecutionError>, usize) {
    INIT_LOG.lock().unwrap().clear();
    EVENT_LOG.lock().unwrap().clear();
    let mut si = SimInit {
        executor: Executor::new(),
        scheduler_queue: Arc::new(Mutex::new(SchedulerQueue)),
        time: AtomicTime,
        clock: Box::new(NoClock),
        clock_tolerance: None,
        timeout: Duration::ZERO,
        observers: Vec::new(),
        abort_signal: Signal,
        model_names: Vec::new(),
    };
    for r in forest {
        let (len, tag, name) = (r.len, r.tag, r.name.clone());
        si = si.add_model(Proto(r.clone()), Mailbox::scripted(len, tag), name);
    }
    let early = EVENT_LOG.lock().unwrap().len();
    (si.init(MonotonicTime(0)).map(|x| x.0), early)
}

struct Failure {
    check: &'static str,
    props: &'static str,
    detail: String,
}

fn run_forest(forest: &[Node]) -> Vec<Failure> {
    let mut fails = Vec::new();
    let mut want = Vec::new();
    for r in forest {
        qualify(None, r, &mut want);
    }
    // ---- C16: initialise through SimInit::init: every model's init runs exactly once, during SimInit::init and before
    // that model takes its first message, under its qualified name; C11: and under its own id
    let (built, early) = build_sim(forest);
    let mut sim = match built {
        Ok(s) => s,
        Err(_) => {
            fails.push(Failure { check: "init-run", props: "C06,C11,C16", detail: "the fault-free SimInit::init failed".into() });
            return fails;
        }
    };
    if early != 0 {
        fails.push(Failure { check: "nothing-runs-before-SimInit-init", props: "C16", detail: format!("{} init/message events had happened before SimInit::init was called", early) });
    }
    let inits = INIT_LOG.lock().unwrap().clone();
    let events = EVENT_LOG.lock().unwrap().clone();
    for (tag, q, _) in &want {
        let n = inits.iter().filter(|x| x.2 == *tag).count();
        if n != 1 {
            fails.push(Failure { check: "every-model-initialised-exactly-once-during-SimInit-init", props: "C16", detail: format!("model {} was initialised {} times by the time SimInit::init returned", q, n) });
            return fails;
        }
        let i_init = events.iter().position(|e| *e == ("init", *tag));
        let i_msg = events.iter().position(|e| *e == ("message", *tag));
        match (i_init, i_msg) {
            (Some(a), Some(b)) if a < b => {}
            (Some(_), None) => {}
            _ => fails.push(Failure { check: "init-before-the-first-message", props: "C16", detail: format!("model {}: events {:?}", q, events.iter().filter(|e| e.1 == *tag).collect::<Vec<_>>()) }),
        }
        let (id, cxname, _) = inits.iter().find(|x| x.2 == *tag).unwrap().clone();
        if &cxname != q {
            fails.push(Failure { check: "context-carries-the-qualified-name", props: "C16", detail: format!("model {} sees the name {:?} in its context", q, cxname) });
        }
        match id {
            Some(i) if sim.model_names.get(i) == Some(q) => {}
            _ => fails.push(Failure { check: "model-id-indexes-its-own-name", props: "C11",
                detail: format!("model {} runs under id {:?}; model_names = {:?}", q, id, sim.model_names) }),
        }
    }
    // ---- C06: unprocessed messages
    *sim.executor.fail.lock().unwrap() = Some(ExecutorError::UnprocessedMessages(7));
    let mut want_dl: Vec<(String, usize)> = want.iter().filter(|x| x.2 > 0).map(|x| (x.1.clone(), x.2)).collect();
    want_dl.sort();
    match sim.run() {
        Err(ExecutionError::Deadlock(list)) => {
            let mut got: Vec<(String, usize)> = list.iter().map(|d| (d.model.clone(), d.mailbox_size)).collect();
            got.sort();
            if got != want_dl {
                fails.push(Failure { check: "deadlock-lists-exactly-the-stuck-models", props: "C06", detail: format!("reported {:?}, expected {:?}", got, want_dl) });
            }
        }
        Err(ExecutionError::MessageLoss(n)) => {
            if !want_dl.is_empty() || n != 7 {
                fails.push(Failure { check: "message-loss-only-when-no-model-is-stuck", props: "C06", detail: format!("MessageLoss({}) reported, but stuck models are {:?}", n, want_dl) });
            }
        }
        _ => fails.push(Failure { check: "unprocessed-messages-classified", props: "C06", detail: "neither Deadlock nor MessageLoss".into() }),
    }
    if !sim.is_terminated {
        fails.push(Failure { check: "fatal-error-terminates", props: "C11", detail: "not terminated after Deadlock/MessageLoss".into() });
    }
    if !matches!(sim.run(), Err(ExecutionError::Terminated)) {
        fails.push(Failure { check: "terminated-stays", props: "C11", detail: "run after a fatal error did not return Terminated".into() });
    }
    // ---- C11: a panic / a send to a dropped mailbox in each model in turn
    for (tag, q, _) in &want {
        for send_error in [false, true] {
            let mut sim = match build_sim(forest).0 {
                Ok(s) => s,
                Err(_) => continue,
            };
            let inits = INIT_LOG.lock().unwrap().clone();
            let id = match inits.iter().find(|x| x.2 == *tag).and_then(|x| x.0) {
                Some(i) => i,
                None => continue,
            };
            let payload: Box<dyn Any + Send> = if send_error { Box::new(SendError) } else { Box::new("boom") };
            *sim.executor.fail.lock().unwrap() = Some(ExecutorError::Panic(ModelId::new(id), payload));
            let r = panic::catch_unwind(panic::AssertUnwindSafe(|| sim.run()));
            match r {
                Ok(Err(ExecutionError::Panic { model, .. })) if !send_error => {
                    if &model != q {
                        fails.push(Failure { check: "panic-names-the-panicking-model", props: "C11", detail: format!("model {} panicked but the report names {:?}", q, model) });
                    }
                }
                Ok(Err(ExecutionError::NoRecipient { model })) if send_error => {
                    if model.as_ref() != Some(q) {
                        fails.push(Failure { check: "no-recipient-names-the-sender", props: "C11", detail: format!("model {} sent to a dropped mailbox but the report names {:?}", q, model) });
                    }
                }
                _ => fails.push(Failure { check: "panic-classified", props: "C11", detail: format!("a {} in model {} was not reported as such", if send_error { "SendError" } else { "panic" }, q) }),
            }
        }
    }
    fails
}

fn gen_trees(budget: usize, depth: usize, next_tag: &mut usize) -> Vec<Vec<Node>> {
    // all forests of exactly `budget` nodes with the given maximal depth (tags assigned later)
    let mut out = Vec::new();
    if budget == 0 {
        out.push(Vec::new());
        return out;
    }
    if depth == 0 {
        return out;
    }
    // first tree takes k nodes (1 root + k-1 in its sub-forest), the rest go to the following siblings
    for k in 1..=budget {
        for sub in gen_trees(k - 1, depth - 1, next_tag) {
            for rest in gen_trees(budget - k, depth, next_tag) {
                let mut f = vec![Node { name: String::new(), len: 0, tag: 0, children: sub.clone() }];
                f.extend(rest);
                out.push(f);
            }
        }
    }
    out
}
fn label(f: &mut Vec<Node>, next: &mut usize, lens: &[usize], unnamed: usize) {
    for n in f.iter_mut() {
        n.tag = *next;
        n.len = lens[*next];
        n.name = if *next == unnamed { String::new() } else { format!("m{}", *next) };
        *next += 1;
        label(&mut n.children, next, lens, unnamed);
    }
}

fn main() {
    let thorough = std::env::args().any(|a| a == "--thorough");
    panic::set_hook(Box::new(|_| {}));
    let mut total = 0u64;
    let mut first: BTreeMap<&'static str, (String, String, String)> = BTreeMap::new();
    let mut counts: BTreeMap<&'static str, u64> = BTreeMap::new();
    let mut samples: Vec<String> = Vec::new();
    let nmax = if thorough { 5 } else { 4 };
    for n in 1..=nmax {
        let mut t = 0;
        for shape in gen_trees(n, 3, &mut t) {
            // every assignment of 0/1/2 queued messages; one model may be unnamed
            let mut lens = vec![0usize; n];
            loop {
                for unnamed in [usize::MAX, n - 1] {
                    let mut f = shape.clone();
                    let mut next = 0;
                    label(&mut f, &mut next, &lens, unnamed);
                    total += 1;
                    let sc = format!("[{}]", f.iter().map(node_json).collect::<Vec<_>>().join(","));
                    if total % 997 == 3 && samples.len() < 8 {
                        samples.push(sc.clone());
                    }
                    for fl in run_forest(&f) {
                        *counts.entry(fl.check).or_insert(0) += 1;
                        first.entry(fl.check).or_insert((fl.props.to_string(), sc.clone(), fl.detail));
                    }
                }
                // next assignment
                let mut i = 0;
                while i < n {
                    lens[i] += 1;
                    if lens[i] <= 2 {
                        break;
                    }
                    lens[i] = 0;
                    i += 1;
                }
                if i == n {
                    break;
                }
            }
        }
    }
    let fs: Vec<String> = first
        .iter()
        .map(|(k, (props, sc, detail))| format!("{{\"check\":\"{}\",\"props\":\"{}\",\"count\":{},\"scenario\":{},\"detail\":{:?}}}", k, props, counts[k], sc, detail))
        .collect();
    println!("{{\"scenarios\":{},\"samples\":[{}],\"bound\":\"every forest of up to {} models (depth <= 3), every assignment of 0/1/2 queued messages, one model possibly unnamed; per forest: UnprocessedMessages, and a panic and a SendError in each model\",\"failures\":[{}]}}",
        total, samples.join(","), nmax, fs.join(","));
}
