        use self::broadcaster::{EventBroadcaster, QueryBroadcaster};
        use self::sender::{RecycledFuture, Sender};
        use crate::channel::SendError;
        use std::collections::BTreeMap;
        use std::future::Future;
        use std::panic;
        use std::pin::Pin;
        use std::sync::atomic::{AtomicBool, AtomicU64, AtomicUsize, Ordering};
        use std::sync::{Arc, Mutex};
        use std::task::{Context, Poll, Wake, Waker};

        // ---------------------------------------------------------------- scripted repliers
        struct Gate {
            open: AtomicBool,
            waker: Mutex<Option<Waker>>,
        }
        #[derive(Clone)]
        struct Scripted {
            id: u32,
            accept: [bool; 2], // per query: does this connection accept the request (filter_map)?
            pend: [bool; 2],   // per query: does the reply come only after the gate was opened?
            gate: Arc<Gate>,
            cur_q: Arc<AtomicUsize>,
        }
        fn reply_of(id: u32, arg: u32) -> u32 {
            1000 * (id + 1) + arg
        }
        struct ReplyFut {
            reply: u32,
            pend: bool,
            gate: Arc<Gate>,
        }
        impl Future for ReplyFut {
            type Output = Result<u32, SendError>;
            fn poll(self: Pin<&mut Self>, cx: &mut Context<'_>) -> Poll<Self::Output> {
                if !self.pend || self.gate.open.load(Ordering::SeqCst) {
                    Poll::Ready(Ok(self.reply))
                } else {
                    *self.gate.waker.lock().unwrap() = Some(cx.waker().clone());
                    Poll::Pending
                }
            }
        }
        impl Sender<u32, u32> for Scripted {
            fn send(&mut self, arg: &u32) -> Option<RecycledFuture<'_, Result<u32, SendError>>> {
                let q = self.cur_q.load(Ordering::SeqCst);
                if !self.accept[q] {
                    return None;
                }
                Some(RecycledFuture(Box::pin(ReplyFut { reply: reply_of(self.id, *arg), pend: self.pend[q], gate: self.gate.clone() })))
            }
            fn box_clone(&self) -> Box<dyn Sender<u32, u32>> {
                Box::new(self.clone())
            }
        }
        struct Flag(AtomicUsize);
        impl Wake for Flag {
            fn wake(self: Arc<Self>) {
                self.0.fetch_add(1, Ordering::SeqCst);
            }
            fn wake_by_ref(self: &Arc<Self>) {
                self.0.fetch_add(1, Ordering::SeqCst);
            }
        }

        // ---------------------------------------------------------------- scenarios
        #[derive(Clone, Copy, Debug, PartialEq)]
        enum Consume {
            All,
            FirstOnly,
            Nothing,
        }
        #[derive(Clone, Debug)]
        struct Query {
            accept: Vec<bool>,
            pend: Vec<bool>,
            order: Vec<usize>, // the order in which the pending repliers complete (indices of connections)
            spurious: bool,    // the first pending replier's waker is called once before it has completed
            rewake: bool,      // a replier that has already replied calls its waker once more before the next one completes
            consume: Consume,
            cancel: bool,      // the broadcast future is dropped after its first poll
        }
        #[derive(Clone, Debug)]
        struct Sc {
            n: usize,
            q: Vec<Query>,
            on_clone: bool, // the second query is sent through a clone of the broadcaster
        }
        fn sc_json(s: &Sc) -> String {
            let qs: Vec<String> = s
                .q
                .iter()
                .map(|q| format!("{{\"accepting\":{:?},\"replying_late\":{:?},\"completion_order\":{:?},\"spurious_wake\":{},\"late_wake_of_a_completed_replier\":{},\"replies_consumed\":\"{:?}\",\"future_dropped_after_first_poll\":{}}}",
                    q.accept, q.pend, q.order, q.spurious, q.rewake, q.consume, q.cancel))
                .collect();
            format!("{{\"connections\":{},\"second_query_through_a_clone\":{},\"queries\":[{}]}}", s.n, s.on_clone, qs.join(","))
        }
        type Fail = (&'static str, &'static str, String);

        static WD_TICK: AtomicU64 = AtomicU64::new(0);
        static WD_CUR: Mutex<Option<Sc>> = Mutex::new(None);

        fn run_query(bc: &mut QueryBroadcaster<u32, u32>, qi: usize, q: &Query, gates: &[Arc<Gate>], cur_q: &Arc<AtomicUsize>, n: usize) -> Option<Fail> {
            cur_q.store(qi, Ordering::SeqCst);
            for g in gates {
                g.open.store(false, Ordering::SeqCst);
                *g.waker.lock().unwrap() = None;
            }
            let arg = 7 + qi as u32;
            let want: Vec<u32> = (0..n).filter(|i| q.accept[*i]).map(|i| reply_of(i as u32, arg)).collect();
            let late: Vec<usize> = q.order.clone();
            let flag = Arc::new(Flag(AtomicUsize::new(0)));
            let waker = Waker::from(flag.clone());
            let mut cx = Context::from_waker(&waker);
            let mut opened = 0usize;
            let result: Result<Vec<u32>, Fail> = {
                let mut fut = Box::pin(bc.broadcast(arg));
                let mut seen = 0usize;
                let mut ready = match fut.as_mut().poll(&mut cx) {
                    Poll::Ready(r) => Some(r),
                    Poll::Pending => None,
                };
                if q.cancel && ready.is_none() {
                    drop(fut);
                    return None;
                }
                let mut fail: Option<Fail> = None;
                if ready.is_some() && !late.is_empty() {
                    fail = Some(("returns-only-after-all-repliers-replied", "C14", format!("query #{}: the broadcast returned at its first poll although {} replier(s) had not replied", qi, late.len())));
                }
                if fail.is_none() && ready.is_none() && late.is_empty() {
                    fail = Some(("completes-once-all-repliers-replied", "C14", format!("query #{}: every accepting replier replied at once, yet the broadcast is pending", qi)));
                }
                let mut k = 0;
                let mut done_wakers: Vec<Waker> = Vec::new();
                while fail.is_none() && ready.is_none() && k < late.len() {
                    let i = late[k];
                    if q.rewake && k > 0 {
                        // a replier that has already replied wakes the future once more: nothing may be polled twice
                        done_wakers[k - 1].wake_by_ref();
                        if flag.0.load(Ordering::SeqCst) > seen {
                            seen = flag.0.load(Ordering::SeqCst);
                            if let Poll::Ready(_) = fut.as_mut().poll(&mut cx) {
                                fail = Some(("returns-only-after-all-repliers-replied", "C14", format!("query #{}: the broadcast returned after a late wake-up of a replier that had already replied, although {} replier(s) had not replied yet", qi, late.len() - opened)));
                                break;
                            }
                        }
                    }
                    if q.spurious && k == 0 {
                        // a wake-up without progress: the future must stay pending
                        let w = gates[i].waker.lock().unwrap().clone();
                        if let Some(w) = w {
                            w.wake_by_ref();
                        }
                        if flag.0.load(Ordering::SeqCst) > seen {
                            seen = flag.0.load(Ordering::SeqCst);
                            if let Poll::Ready(_) = fut.as_mut().poll(&mut cx) {
                                fail = Some(("returns-only-after-all-repliers-replied", "C14", format!("query #{}: the broadcast returned after a spurious wake-up although no pending replier had replied", qi)));
                                break;
                            }
                        }
                    }
                    gates[i].open.store(true, Ordering::SeqCst);
                    opened += 1;
                    let w = gates[i].waker.lock().unwrap().take();
                    match w {
                        Some(w) => {
                            done_wakers.push(w.clone());
                            w.wake()
                        }
                        None => {
                            fail = Some(("every-pending-replier-is-polled", "C14", format!("query #{}: replier {} accepted the request but its future was never polled", qi, i)));
                            break;
                        }
                    }
                    if flag.0.load(Ordering::SeqCst) > seen {
                        seen = flag.0.load(Ordering::SeqCst);
                        match fut.as_mut().poll(&mut cx) {
                            Poll::Ready(r) => {
                                if opened < late.len() {
                                    fail = Some(("returns-only-after-all-repliers-replied", "C14", format!("query #{}: the broadcast returned although {} replier(s) had not replied yet", qi, late.len() - opened)));
                                }
                                ready = Some(r);
                            }
                            Poll::Pending => {}
                        }
                    } else if opened == late.len() {
                        fail = Some(("no-lost-wake-up", "C14", format!("query #{}: every replier has replied and called its waker, but the broadcast future was not woken", qi)));
                    }
                    k += 1;
                }
                if fail.is_none() && ready.is_none() {
                    // all gates are open and every waker was called: a bounded number of further polls must finish it
                    let mut extra = 0;
                    while ready.is_none() && extra < 4 && flag.0.load(Ordering::SeqCst) > seen {
                        seen = flag.0.load(Ordering::SeqCst);
                        if let Poll::Ready(r) = fut.as_mut().poll(&mut cx) {
                            ready = Some(r);
                        }
                        extra += 1;
                    }
                    if ready.is_none() {
                        fail = Some(("completes-once-all-repliers-replied", "C14", format!("query #{}: all repliers have replied and woken the future; it is still pending", qi)));
                    }
                }
                match (fail, ready) {
                    (Some(f), _) => Err(f),
                    (None, Some(Ok(iter))) => Ok(match q.consume {
                        Consume::All => iter.collect(),
                        Consume::FirstOnly => iter.take(1).collect(),
                        Consume::Nothing => Vec::new(),
                    }),
                    (None, Some(Err(_))) => Err(("no-error-without-a-dropped-replier", "C14", format!("query #{}: SendError although no replier was dropped", qi))),
                    (None, None) => unreachable!(),
                }
            };
            match result {
                Err(f) => Some(f),
                Ok(got) => {
                    let exp: Vec<u32> = match q.consume {
                        Consume::All => want.clone(),
                        Consume::FirstOnly => want.iter().take(1).cloned().collect(),
                        Consume::Nothing => Vec::new(),
                    };
                    if got != exp {
                        Some(("one-reply-per-accepting-replier-in-connection-order", "C14",
                            format!("query #{} (request {}): replies {:?}, expected {:?} (reply of connection i to request a is 1000*(i+1)+a)", qi, arg, got, exp)))
                    } else {
                        None
                    }
                }
            }
        }

        fn run(sc: &Sc) -> Option<Fail> {
            let cur_q = Arc::new(AtomicUsize::new(0));
            let gates: Vec<Arc<Gate>> = (0..sc.n).map(|_| Arc::new(Gate { open: AtomicBool::new(false), waker: Mutex::new(None) })).collect();
            let mut bc: QueryBroadcaster<u32, u32> = QueryBroadcaster::default();
            for i in 0..sc.n {
                let accept = [sc.q[0].accept[i], sc.q.get(1).map(|q| q.accept[i]).unwrap_or(false)];
                let pend = [sc.q[0].pend[i], sc.q.get(1).map(|q| q.pend[i]).unwrap_or(false)];
                bc.add(Box::new(Scripted { id: i as u32, accept, pend, gate: gates[i].clone(), cur_q: cur_q.clone() }));
            }
            if bc.len() != sc.n {
                return Some(("one-connection-per-add", "C14", format!("len() is {} after {} connections", bc.len(), sc.n)));
            }
            if let Some(f) = run_query(&mut bc, 0, &sc.q[0], &gates, &cur_q, sc.n) {
                return Some(f);
            }
            if sc.q.len() > 1 {
                if sc.on_clone {
                    let mut c = bc.clone();
                    return run_query(&mut c, 1, &sc.q[1], &gates, &cur_q, sc.n);
                }
                return run_query(&mut bc, 1, &sc.q[1], &gates, &cur_q, sc.n);
            }
            None
        }

        // ---------------------------------------------------------------- event broadcast (last sentence of C17)
        #[derive(Clone)]
        struct EvScripted {
            id: u32,
            accept: [bool; 2],
            pend: [bool; 2],
            gate: Arc<Gate>,
            cur_q: Arc<AtomicUsize>,
            log: Arc<Mutex<Vec<(u32, u32)>>>, // (connection, event) in the order the recipients got them
        }
        struct EvFut {
            id: u32,
            ev: u32,
            pend: bool,
            gate: Arc<Gate>,
            log: Arc<Mutex<Vec<(u32, u32)>>>,
        }
        impl Future for EvFut {
            type Output = Result<(), SendError>;
            fn poll(self: Pin<&mut Self>, cx: &mut Context<'_>) -> Poll<Self::Output> {
                if !self.pend || self.gate.open.load(Ordering::SeqCst) {
                    self.log.lock().unwrap().push((self.id, self.ev));
                    Poll::Ready(Ok(()))
                } else {
                    *self.gate.waker.lock().unwrap() = Some(cx.waker().clone());
                    Poll::Pending
                }
            }
        }
        impl Sender<u32, ()> for EvScripted {
            fn send(&mut self, arg: &u32) -> Option<RecycledFuture<'_, Result<(), SendError>>> {
                let q = self.cur_q.load(Ordering::SeqCst);
                if !self.accept[q] {
                    return None;
                }
                Some(RecycledFuture(Box::pin(EvFut { id: self.id, ev: *arg, pend: self.pend[q], gate: self.gate.clone(), log: self.log.clone() })))
            }
            fn box_clone(&self) -> Box<dyn Sender<u32, ()>> {
                Box::new(self.clone())
            }
        }
        fn run_events(sc: &Sc) -> Option<Fail> {
            let cur_q = Arc::new(AtomicUsize::new(0));
            let log: Arc<Mutex<Vec<(u32, u32)>>> = Arc::new(Mutex::new(Vec::new()));
            let gates: Vec<Arc<Gate>> = (0..sc.n).map(|_| Arc::new(Gate { open: AtomicBool::new(false), waker: Mutex::new(None) })).collect();
            let mut bc: EventBroadcaster<u32> = EventBroadcaster::default();
            for i in 0..sc.n {
                let accept = [sc.q[0].accept[i], sc.q.get(1).map(|q| q.accept[i]).unwrap_or(false)];
                let pend = [sc.q[0].pend[i], sc.q.get(1).map(|q| q.pend[i]).unwrap_or(false)];
                bc.add(Box::new(EvScripted { id: i as u32, accept, pend, gate: gates[i].clone(), cur_q: cur_q.clone(), log: log.clone() }));
            }
            let mut expected: Vec<(u32, u32)> = Vec::new();
            for (qi, q) in sc.q.iter().enumerate() {
                if q.cancel {
                    return None; // dropped event broadcasts are not part of this phase
                }
                cur_q.store(qi, Ordering::SeqCst);
                for g in &gates {
                    g.open.store(false, Ordering::SeqCst);
                    *g.waker.lock().unwrap() = None;
                }
                let ev = 50 + qi as u32;
                let flag = Arc::new(Flag(AtomicUsize::new(0)));
                let waker = Waker::from(flag.clone());
                let mut cx = Context::from_waker(&waker);
                let mut fut = Box::pin(bc.broadcast(ev));
                let mut seen = 0usize;
                let mut done = matches!(fut.as_mut().poll(&mut cx), Poll::Ready(_));
                let mut opened = 0;
                for (k, i) in q.order.iter().enumerate() {
                    if done {
                        return Some(("event-broadcast-returns-only-after-every-recipient-got-the-event", "C17", format!("event #{}: the broadcast returned although {} recipient(s) had not taken the event yet", qi, q.order.len() - opened)));
                    }
                    gates[*i].open.store(true, Ordering::SeqCst);
                    opened += 1;
                    match gates[*i].waker.lock().unwrap().take() {
                        Some(w) => w.wake(),
                        None => return Some(("event-broadcast-polls-every-recipient", "C17", format!("event #{}: recipient {} accepted the event but was never polled", qi, i))),
                    }
                    if flag.0.load(Ordering::SeqCst) > seen {
                        seen = flag.0.load(Ordering::SeqCst);
                        done = matches!(fut.as_mut().poll(&mut cx), Poll::Ready(_));
                    } else if k + 1 == q.order.len() {
                        return Some(("event-broadcast-no-lost-wake-up", "C17", format!("event #{}: every recipient took the event and called its waker, but the broadcast future was not woken", qi)));
                    }
                }
                let mut extra = 0;
                while !done && extra < 4 && flag.0.load(Ordering::SeqCst) > seen {
                    seen = flag.0.load(Ordering::SeqCst);
                    done = matches!(fut.as_mut().poll(&mut cx), Poll::Ready(_));
                    extra += 1;
                }
                if !done {
                    return Some(("event-broadcast-completes", "C17", format!("event #{}: every recipient took the event; the broadcast is still pending", qi)));
                }
                drop(fut);
                // every accepting recipient got this event exactly once, and after all events sent before it
                let mut this_round: Vec<(u32, u32)> = (0..sc.n).filter(|i| q.accept[*i]).map(|i| (i as u32, ev)).collect();
                let got_all = log.lock().unwrap().clone();
                let mut got_round: Vec<(u32, u32)> = got_all[expected.len().min(got_all.len())..].to_vec();
                got_round.sort();
                this_round.sort();
                if got_all.len() < expected.len() || got_round != this_round {
                    return Some(("each-recipient-gets-each-event-once-in-sending-order", "C17",
                        format!("after event #{} (value {}): deliveries (connection, event) so far {:?}; this event should have added exactly {:?}", qi, ev, got_all, this_round)));
                }
                expected = got_all;
            }
            None
        }

        fn permutations(items: &[usize]) -> Vec<Vec<usize>> {
            if items.len() <= 1 {
                return vec![items.to_vec()];
            }
            let mut out = Vec::new();
            for k in 0..items.len() {
                let mut rest = items.to_vec();
                let x = rest.remove(k);
                for mut p in permutations(&rest) {
                    p.insert(0, x);
                    out.push(p);
                }
            }
            out
        }
        fn queries(n: usize, first: bool) -> Vec<Query> {
            let mut out = Vec::new();
            for am in 0..(1u32 << n) {
                let accept: Vec<bool> = (0..n).map(|i| am >> i & 1 == 1).collect();
                for pm in 0..(1u32 << n) {
                    if pm & !am != 0 {
                        continue; // a replier that does not accept has nothing to reply late
                    }
                    let pend: Vec<bool> = (0..n).map(|i| pm >> i & 1 == 1).collect();
                    let late: Vec<usize> = (0..n).filter(|i| pend[*i]).collect();
                    for order in permutations(&late) {
                        for (spurious, rewake) in [(false, false), (true, false), (false, true)] {
                            if spurious && late.is_empty() {
                                continue;
                            }
                            if rewake && late.len() < 2 {
                                continue;
                            }
                            let consumes: &[Consume] = if first { &[Consume::All, Consume::FirstOnly, Consume::Nothing] } else { &[Consume::All] };
                            for consume in consumes {
                                for cancel in [false, true] {
                                    if cancel && (!first || late.is_empty()) {
                                        continue;
                                    }
                                    out.push(Query { accept: accept.clone(), pend: pend.clone(), order: order.clone(), spurious, rewake, consume: *consume, cancel });
                                }
                            }
                        }
                    }
                }
            }
            out
        }

        pub fn run_all() {
            let thorough = std::env::args().any(|a| a == "--thorough");
            panic::set_hook(Box::new(|_| {}));
            std::thread::spawn(|| {
                let mut last = u64::MAX;
                let mut same = 0;
                loop {
                    std::thread::sleep(std::time::Duration::from_millis(250));
                    let t = WD_TICK.load(Ordering::Relaxed);
                    if t == last {
                        same += 1;
                    } else {
                        same = 0;
                        last = t;
                    }
                    if same >= 120 {
                        let cur = WD_CUR.lock().unwrap().clone();
                        if let Some(sc) = cur {
                            println!("{{\"scenarios\":{},\"samples\":[],\"bound\":\"exploration stopped at the first broadcast that did not return\",\"failures\":[{{\"check\":\"broadcast-poll-returns\",\"props\":\"C14\",\"count\":1,\"scenario\":{},\"detail\":\"a poll of the broadcast future had not returned after 30 s\"}}]}}", t, sc_json(&sc));
                            std::process::exit(0);
                        }
                    }
                }
            });
            let mut total = 0u64;
            let mut first: BTreeMap<&'static str, (String, String, String)> = BTreeMap::new();
            let mut counts: BTreeMap<&'static str, u64> = BTreeMap::new();
            let mut samples: Vec<String> = Vec::new();
            let nmax = if thorough { 4 } else { 3 };
            for n in 1..=nmax {
                let q0s = queries(n, true);
                // second queries: the full set for n <= 2 (thorough: 3), a thinned one above
                let q1s_all = queries(n, false);
                for (a, q0) in q0s.iter().enumerate() {
                    let stride = if n <= 3 { 1 } else { 13 };
                    let mut variants: Vec<Option<&Query>> = vec![None];
                    let mut b = a % stride;
                    while b < q1s_all.len() {
                        variants.push(Some(&q1s_all[b]));
                        b += stride;
                    }
                    for q1 in variants {
                        for on_clone in [false, true] {
                            if on_clone && q1.is_none() {
                                continue;
                            }
                            let mut q = vec![q0.clone()];
                            if let Some(x) = q1 {
                                q.push(x.clone());
                            }
                            let sc = Sc { n, q, on_clone };
                            total += 1;
                            *WD_CUR.lock().unwrap() = Some(sc.clone());
                            WD_TICK.fetch_add(1, Ordering::Relaxed);
                            if total % 40_009 == 11 && samples.len() < 6 {
                                samples.push(sc_json(&sc));
                            }
                            let r = panic::catch_unwind(panic::AssertUnwindSafe(|| run(&sc)));
                            let fl = match r {
                                Ok(x) => x,
                                Err(_) => Some(("broadcast-does-not-panic", "C14", "the broadcaster panicked".to_string())),
                            };
                            if let Some((check, props, detail)) = fl {
                                *counts.entry(check).or_insert(0) += 1;
                                first.entry(check).or_insert((props.to_string(), sc_json(&sc), detail));
                            }
                            // the same scenario as two EVENT broadcasts (consumption and clones do not apply)
                            if !on_clone && sc.q[0].consume == Consume::All && !sc.q[0].rewake {
                                total += 1;
                                let r = panic::catch_unwind(panic::AssertUnwindSafe(|| run_events(&sc)));
                                let fl = match r {
                                    Ok(x) => x,
                                    Err(_) => Some(("event-broadcast-does-not-panic", "C17", "the event broadcaster panicked".to_string())),
                                };
                                if let Some((check, props, detail)) = fl {
                                    *counts.entry(check).or_insert(0) += 1;
                                    first.entry(check).or_insert((props.to_string(), sc_json(&sc), detail));
                                }
                            }
                        }
                    }
                }
            }
            let fs: Vec<String> = first
                .iter()
                .map(|(k, (props, sc, detail))| format!("{{\"check\":\"{}\",\"props\":\"{}\",\"count\":{},\"scenario\":{},\"detail\":{:?}}}", k, props, counts[k], sc, detail))
                .collect();
            println!("{{\"scenarios\":{},\"samples\":[{}],\"bound\":\"1..{} connected repliers; per query every accept/filter pattern, every subset of accepting repliers replying late, every completion order of those, with and without a spurious wake-up of a pending replier or a late wake-up of a completed one; first query: replies consumed fully / first only / not at all, or the future dropped after its first poll; then no or one further query (all of them up to {} connections, every 13th above) on the same broadcaster or on a clone; the same patterns as one or two EVENT broadcasts (each recipient gets each event once, in sending order; the broadcast returns only after all of them took it); one thread\",\"failures\":[{}]}}",
                total, samples.join(","), nmax, 3, fs.join(","));
        }
