pub enum SyncStatus { Synchronized, OutOfSync(Duration) }

//@include inc/queue_stubs.rs

// ---------- stubs for everything the kernel calls but this unit does not verify ----------
#[verifier::external_body]
pub struct Executor { x: u8 }
#[verifier::external_body]
pub struct SeqFuture { x: u8 }
#[verifier::external_body]
pub struct AtomicTime { x: u8 }
#[verifier::external_body]
pub struct ClockBox { x: u8 }
#[verifier::external_body]
pub struct ObserverBox { x: u8 }
#[verifier::external_body]
pub struct Payload { x: u8 }

impl Payload { pub uninterp spec fn is_send_error(&self) -> bool; }
#[verifier::external_body]
fn payload_is_send_error(p: &Payload) -> (r: bool) ensures r == p.is_send_error() { unimplemented!() }
#[verifier::external_body]
fn resume_unwind(p: Payload) -> ! { unimplemented!() }

impl ObserverBox {
    // ChannelObserver::len: the number of messages in the observed mailbox (C12 proves Queue::len)
    pub uninterp spec fn spec_len(&self) -> usize;
    #[verifier::external_body]
    pub fn len(&self) -> (r: usize) ensures r == self.spec_len() { unimplemented!() }
}

// the time the clock was last synchronised on (-1: never)
pub open spec fn last_sync(s: Seq<u64>) -> int { if s.len() > 0 { s.last() as int } else { -1 } }
impl ClockBox {
    // the log of all times passed to Clock::synchronize
    pub uninterp spec fn syncs(&self) -> Seq<u64>;
    // the status returned by the most recent synchronize
    pub uninterp spec fn last_status(&self) -> SyncStatus;
    #[verifier::external_body]
    pub fn synchronize(&mut self, t: MonotonicTime) -> (r: SyncStatus)
        requires old(self).syncs().len() > 0 ==> t.t >= old(self).syncs().last(),   //@ C18 #times-passed-to-synchronize-never-decrease //@if mon
        ensures final(self).syncs() == old(self).syncs().push(t.t), final(self).last_status() == r
    { unimplemented!() }
}
impl AtomicTime {
    pub uninterp spec fn val(&self) -> u64;
    #[verifier::external_body]
    pub fn write(&mut self, t: MonotonicTime)
        ensures final(self).val() == t.t
    { unimplemented!() }
    #[verifier::external_body]
    pub fn read(&self) -> (r: MonotonicTime)
        ensures r.t == self.val()
    { unimplemented!() }
}
impl SeqFuture {
    // SeqFuture polls its futures strictly in push order (proved in unit seqfut)
    pub uninterp spec fn aids(&self) -> Seq<int>;
    #[verifier::external_body]
    pub fn new() -> (r: Self) ensures r.aids() == Seq::<int>::empty() { unimplemented!() }
    #[verifier::external_body]
    pub fn push(&mut self, f: ActFut) ensures final(self).aids() == old(self).aids().push(f.aid()) { unimplemented!() }
}
#[derive(Copy, Clone)]
//@item src=nexosim/src/simulation.rs kind=struct name=ModelId rules=PUBSTRUCT,PUBTUPLE
pub struct ModelId(pub usize);
//@end
pub enum ExecutorError { UnprocessedMessages(usize), Timeout, Panic(ModelId, Payload) }
impl Executor {
    // log of the tasks handed to the executor: one Seq<aid> per task (a SeqFuture is a sequence)
    pub uninterp spec fn spawned(&self) -> Seq<Seq<int>>;
    // log of the calls of Executor::run (= the only way model code runs): for each call, the simulation time and the
    // time the clock was last synchronised on (-1: never) at the moment the executor was entered
    pub uninterp spec fn run_at(&self) -> Seq<(u64, int)>;
    // number of times Executor::run was entered
    pub open spec fn runs(&self) -> nat { self.run_at().len() }
    // number of models registered with ModelId (ids are issued by add_model, unit reg)
    pub uninterp spec fn n_models(&self) -> nat;
    // the executor can still be used: after a failed run it may not be (the single-threaded executor leaves its state
    // with the timed-out worker thread: st_executor.rs, `self.inner.take()`), and spawning on it then panics
    pub uninterp spec fn usable(&self) -> bool;
    #[verifier::external_body]
    pub fn spawn_and_forget(&mut self, f: SeqFuture)
        requires old(self).usable(),                         //@ C11 #nothing-is-spawned-on-a-dead-executor //@if !mon
        ensures final(self).usable(), final(self).spawned() == old(self).spawned().push(f.aids()), final(self).run_at() == old(self).run_at(),
            final(self).n_models() == old(self).n_models(),
    { unimplemented!() }
    // assumption A-exec: runs every spawned task to quiescence at the current time; may return any error
    #[verifier::external_body]
    pub fn run(&mut self, timeout: Duration, Ghost(now): Ghost<u64>, Ghost(synced): Ghost<int>) -> (r: Result<(), ExecutorError>)
        requires old(self).usable(),                         //@ C11 #nothing-runs-on-a-dead-executor //@if !mon
        ensures r is Ok ==> final(self).usable(),
            final(self).spawned() == old(self).spawned(), final(self).run_at() == old(self).run_at().push((now, synced)),
            final(self).n_models() == old(self).n_models(),
            r matches Err(ExecutorError::Panic(id, _p)) ==> id.0 == usize::MAX || id.0 < final(self).n_models(),
    { unimplemented!() }
}
impl Action {
    #[verifier::external_body]
    pub fn spawn_and_forget(self, e: &mut Executor)
        requires old(e).usable(),                            //@ C11 #nothing-is-spawned-on-a-dead-executor //@if !mon
        ensures final(e).usable(), final(e).spawned() == old(e).spawned().push(seq![self.aid()]), final(e).run_at() == old(e).run_at(),
            final(e).n_models() == old(e).n_models(),
    { unimplemented!() }
}

