// ---------- spec helpers & lemmas (checked) ----------
pub open spec fn live_aids(s: Seq<Entry>) -> Seq<int>
    decreases s.len()
{
    if s.len() == 0 { Seq::<int>::empty() } else {
        let r = live_aids(s.drop_last());
        if s.last().cancelled { r } else { r.push(s.last().aid) }
    }
}
pub open spec fn flat(ts: Seq<Seq<int>>) -> Seq<int>
    decreases ts.len()
{
    if ts.len() == 0 { Seq::<int>::empty() } else { flat(ts.drop_last()) + ts.last() }
}
pub open spec fn all_cancelled(s: Seq<Entry>) -> bool {
    forall|i: int| 0 <= i < s.len() ==> (#[trigger] s[i]).cancelled
}
pub proof fn lemma_live_aids_push(s: Seq<Entry>, e: Entry)
    ensures live_aids(s.push(e)) == if e.cancelled { live_aids(s) } else { live_aids(s).push(e.aid) }
{
    assert(s.push(e).drop_last() == s);
    assert(s.push(e).last() == e);
}
pub proof fn lemma_live_aids_cancelled_ext(s: Seq<Entry>, a: int, b: int)
    requires 0 <= a <= b <= s.len(), all_cancelled(s.subrange(a, b))
    ensures live_aids(s.subrange(0, b)) == live_aids(s.subrange(0, a))
    decreases b - a
{
    if a < b {
        assert(s.subrange(a, b - 1) == s.subrange(a, b).subrange(0, b - 1 - a));
        assert forall|i: int| 0 <= i < b - 1 - a implies (#[trigger] s.subrange(a, b - 1)[i]).cancelled by {
            assert(s.subrange(a, b - 1)[i] == s.subrange(a, b)[i]);
        }
        lemma_live_aids_cancelled_ext(s, a, b - 1);
        assert(s.subrange(0, b) == s.subrange(0, b - 1).push(s[b - 1]));
        lemma_live_aids_push(s.subrange(0, b - 1), s[b - 1]);
        assert(s.subrange(a, b)[b - 1 - a] == s[b - 1]);
    } else {
    }
}
pub proof fn lemma_flat_push(ts: Seq<Seq<int>>, x: Seq<int>)
    ensures flat(ts.push(x)) == flat(ts) + x
{
    assert(ts.push(x).drop_last() == ts);
    assert(ts.push(x).last() == x);
}

pub open spec fn is_reins(e: Entry, r: Entry) -> bool {
    e.period.is_some() && r.time as int == e.time as int + e.period.unwrap() as int
        && r.origin == e.origin && r.cancelled == e.cancelled && r.period == e.period && r.series == e.series
}
// number of leading entries with time <= t
pub open spec fn nle(s: Seq<Entry>, t: u64) -> nat
    decreases s.len()
{
    if s.len() == 0 || s[0].time > t { 0 } else { 1 + nle(s.drop_first(), t) }
}
pub proof fn lemma_nle(s: Seq<Entry>, t: u64)
    requires sorted(s)
    ensures
        nle(s, t) <= s.len(),
        forall|i: int| 0 <= i < nle(s, t) ==> (#[trigger] s[i]).time <= t,
        forall|i: int| nle(s, t) <= i < s.len() ==> (#[trigger] s[i]).time > t,
    decreases s.len()
{
    if s.len() == 0 {
    } else if s[0].time > t {
        assert forall|i: int| 0 <= i < s.len() implies (#[trigger] s[i]).time > t by {
            if i > 0 { assert(key_le(s[0], s[i])); }
        }
    } else {
        let r = s.drop_first();
        assert(sorted(r)) by {
            assert forall|i: int, j: int| 0 <= i < j < r.len() implies key_le(#[trigger] r[i], #[trigger] r[j]) by {
                assert(r[i] == s[i + 1]); assert(r[j] == s[j + 1]);
            }
        }
        lemma_nle(r, t);
        assert forall|i: int| 0 <= i < nle(s, t) implies (#[trigger] s[i]).time <= t by {
            if i > 0 { assert(s[i] == r[i - 1]); }
        }
        assert forall|i: int| nle(s, t) <= i < s.len() implies (#[trigger] s[i]).time > t by {
            assert(s[i] == r[i - 1]);
        }
    }
}
pub proof fn lemma_sorted_subrange(s: Seq<Entry>, a: int, b: int)
    requires sorted(s), 0 <= a <= b <= s.len()
    ensures sorted(s.subrange(a, b))
{
    let r = s.subrange(a, b);
    assert forall|i: int, j: int| 0 <= i < j < r.len() implies key_le(#[trigger] r[i], #[trigger] r[j]) by {
        assert(r[i] == s[a + i]); assert(r[j] == s[a + j]);
    }
}

pub open spec fn peek_rel(oldq: Seq<Entry>, newq: Seq<Entry>, bound: u64, n: int) -> bool {
    0 <= n <= oldq.len() && newq == oldq.subrange(n, oldq.len() as int)
    && (forall|i: int| 0 <= i < n ==> (#[trigger] oldq[i]).cancelled && oldq[i].time <= bound)
}
pub open spec fn pull_rel(qb: Seq<Entry>, q1: Seq<Entry>) -> bool {
    qb.len() > 0
    && (qb[0].period is None ==> q1 == qb.drop_first())
    && (qb[0].period is Some ==>
            exists|p: int, e: Entry| 0 <= p <= qb.len() - 1
                && is_reins(qb[0], e)
                && q1 == #[trigger] qb.drop_first().insert(p, e)
                && (forall|i: int| 0 <= i < p ==> key_le(#[trigger] qb.drop_first()[i], e))
                && (forall|i: int| p <= i < qb.len() - 1 ==> !key_le(#[trigger] qb.drop_first()[i], e)))
}
pub open spec fn due_inv(qa: Seq<Entry>, kk: int, t: u64, q: Seq<Entry>, d: int) -> bool {
    0 <= d <= kk && kk <= qa.len() && d <= q.len()
    && q.subrange(0, d) == qa.subrange(kk - d, kk)
    && (forall|i: int| d <= i < q.len() ==> (#[trigger] q[i]).time > t)
}
pub proof fn lemma_pull_step(qa: Seq<Entry>, kk: int, t: u64, qb: Seq<Entry>, q1: Seq<Entry>, d: int)
    requires
        due_inv(qa, kk, t, qb, d), d >= 1,
        forall|i: int| 0 <= i < kk ==> (#[trigger] qa[i]).time == t,
        no_zero_period(qb),
        pull_rel(qb, q1),
    ensures
        due_inv(qa, kk, t, q1, d - 1),
        qb[0] == qa[kk - d],
        live_aids(qa.subrange(0, kk - d + 1)) ==
            if qa[kk - d].cancelled { live_aids(qa.subrange(0, kk - d)) } else { live_aids(qa.subrange(0, kk - d)).push(qa[kk - d].aid) },
{
    assert(qb[0] == qb.subrange(0, d)[0]);
    assert(qb[0] == qa[kk - d]);
    let dq = qb.drop_first();
    assert forall|i: int| 0 <= i < d - 1 implies #[trigger] dq[i] == qa[kk - d + 1 + i] by {
        assert(dq[i] == qb[i + 1]);
        assert(qb[i + 1] == qb.subrange(0, d)[i + 1]);
    }
    if qb[0].period is None {
        assert(q1 == dq);
        assert forall|i: int| d - 1 <= i < q1.len() implies (#[trigger] q1[i]).time > t by {
            assert(q1[i] == qb[i + 1]);
        }
    } else {
        let (p, e) = choose|p: int, e: Entry| 0 <= p <= qb.len() - 1
            && is_reins(qb[0], e)
            && q1 == #[trigger] dq.insert(p, e)
            && (forall|i: int| 0 <= i < p ==> key_le(#[trigger] dq[i], e))
            && (forall|i: int| p <= i < qb.len() - 1 ==> !key_le(#[trigger] dq[i], e));
        assert(qb[0].period != Some(0nat));
        assert(e.time > t);
        if p < d - 1 {
            assert(!key_le(dq[p], e));
            assert(dq[p] == qa[kk - d + 1 + p]);
            assert(false);
        }
        assert forall|i: int| d - 1 <= i < q1.len() implies (#[trigger] q1[i]).time > t by {
            if i < p { assert(q1[i] == dq[i]); assert(dq[i] == qb[i + 1]); }
            else if i == p { }
            else { assert(q1[i] == dq[i - 1]); assert(dq[i - 1] == qb[i]); }
        }
        assert forall|i: int| 0 <= i < d - 1 implies #[trigger] q1[i] == dq[i] by { }
    }
    assert(q1.subrange(0, d - 1) =~= qa.subrange(kk - (d - 1), kk)) by {
        assert forall|i: int| 0 <= i < d - 1 implies #[trigger] q1.subrange(0, d - 1)[i] == qa.subrange(kk - (d - 1), kk)[i] by {
            assert(q1[i] == dq[i]);
        }
    }
    assert(qa.subrange(0, kk - d + 1) == qa.subrange(0, kk - d).push(qa[kk - d]));
    lemma_live_aids_push(qa.subrange(0, kk - d), qa[kk - d]);
}
pub open spec fn after_peek_d(d1: int, n: int) -> int { if n <= d1 { d1 - n } else { 0 } }
pub proof fn lemma_peek_step(qa: Seq<Entry>, kk: int, t: u64, q1: Seq<Entry>, q2: Seq<Entry>, d1: int, bound: u64, n: int)
    requires
        due_inv(qa, kk, t, q1, d1),
        peek_rel(q1, q2, bound, n),
    ensures
        due_inv(qa, kk, t, q2, after_peek_d(d1, n)),
        live_aids(qa.subrange(0, kk - after_peek_d(d1, n))) == live_aids(qa.subrange(0, kk - d1)),
        all_cancelled(qa.subrange(kk - d1, kk - after_peek_d(d1, n))),
{
    let d2 = after_peek_d(d1, n);
    assert forall|i: int| d2 <= i < q2.len() implies (#[trigger] q2[i]).time > t by {
        assert(q2[i] == q1[n + i]);
    }
    assert(q2.subrange(0, d2) =~= qa.subrange(kk - d2, kk)) by {
        assert forall|i: int| 0 <= i < d2 implies #[trigger] q2.subrange(0, d2)[i] == qa.subrange(kk - d2, kk)[i] by {
            assert(q2[i] == q1[n + i]);
            assert(q1[n + i] == q1.subrange(0, d1)[n + i]);
        }
    }
    assert(all_cancelled(qa.subrange(kk - d1, kk - d2))) by {
        assert forall|i: int| 0 <= i < d1 - d2 implies (#[trigger] qa.subrange(kk - d1, kk - d2)[i]).cancelled by {
            assert(qa[kk - d1 + i] == q1.subrange(0, d1)[i]);
            assert(q1[i].cancelled);
        }
    }
    lemma_live_aids_cancelled_ext(qa, kk - d1, kk - d2);
}
pub proof fn lemma_peek_preserves(q1: Seq<Entry>, q2: Seq<Entry>, bound: u64, n: int)
    requires peek_rel(q1, q2, bound, n), sorted(q1), no_zero_period(q1)
    ensures sorted(q2), no_zero_period(q2)
{
    lemma_sorted_subrange(q1, n, q1.len() as int);
    assert forall|i: int| 0 <= i < q2.len() implies (#[trigger] q2[i]).period != Some(0nat) by {
        assert(q2[i] == q1[n + i]);
    }
}

pub proof fn lemma_live_aids_concat(x: Seq<Entry>, y: Seq<Entry>)
    ensures live_aids(x + y) == live_aids(x) + live_aids(y)
    decreases y.len()
{
    if y.len() == 0 {
        assert(x + y == x);
        assert(live_aids(x) + Seq::<int>::empty() == live_aids(x));
    } else {
        lemma_live_aids_concat(x, y.drop_last());
        assert((x + y).drop_last() == x + y.drop_last());
        assert((x + y).last() == y.last());
        if !y.last().cancelled {
            assert((live_aids(x) + live_aids(y.drop_last())).push(y.last().aid) == live_aids(x) + live_aids(y.drop_last()).push(y.last().aid));
        }
    }
}
pub proof fn lemma_live_aids_all_cancelled(x: Seq<Entry>)
    requires all_cancelled(x)
    ensures live_aids(x) == Seq::<int>::empty()
    decreases x.len()
{
    if x.len() > 0 {
        assert forall|i: int| 0 <= i < x.drop_last().len() implies (#[trigger] x.drop_last()[i]).cancelled by {
            assert(x.drop_last()[i] == x[i]);
        }
        lemma_live_aids_all_cancelled(x.drop_last());
        assert(x.last() == x[x.len() - 1]);
    }
}
pub proof fn lemma_nle_unique(s: Seq<Entry>, t: u64, m: int)
    requires
        0 <= m <= s.len(),
        forall|i: int| 0 <= i < m ==> (#[trigger] s[i]).time <= t,
        forall|i: int| m <= i < s.len() ==> (#[trigger] s[i]).time > t,
    ensures nle(s, t) == m
    decreases s.len()
{
    if s.len() == 0 || s[0].time > t {
        if m > 0 { assert(s[0].time <= t); }
    } else {
        if m == 0 { assert(s[0].time > t); }
        let r = s.drop_first();
        assert forall|i: int| 0 <= i < m - 1 implies (#[trigger] r[i]).time <= t by { assert(r[i] == s[i + 1]); }
        assert forall|i: int| m - 1 <= i < r.len() implies (#[trigger] r[i]).time > t by { assert(r[i] == s[i + 1]); }
        lemma_nle_unique(r, t, m - 1);
    }
}
// relates the due list after discarding a cancelled prefix (qa) to the one of the original queue (q0)
pub proof fn lemma_due_of_original(q0: Seq<Entry>, qa: Seq<Entry>, bound: u64, n0: int, t: u64)
    requires
        sorted(q0), peek_rel(q0, qa, bound, n0), qa.len() > 0, qa[0].time == t,
    ensures
        nle(q0, t) == n0 + nle(qa, t),
        live_aids(q0.subrange(0, nle(q0, t) as int)) == live_aids(qa.subrange(0, nle(qa, t) as int)),
{
    lemma_sorted_subrange(q0, n0, q0.len() as int);
    lemma_nle(qa, t);
    let kk = nle(qa, t) as int;
    assert forall|i: int| 0 <= i < n0 + kk implies (#[trigger] q0[i]).time <= t by {
        if i < n0 { assert(qa[0] == q0[n0]); assert(key_le(q0[i], q0[n0])); }
        else { assert(q0[i] == qa[i - n0]); }
    }
    assert forall|i: int| n0 + kk <= i < q0.len() implies (#[trigger] q0[i]).time > t by {
        assert(q0[i] == qa[i - n0]);
    }
    lemma_nle_unique(q0, t, n0 + kk);
    let x = q0.subrange(0, n0);
    let y = qa.subrange(0, kk);
    assert(q0.subrange(0, n0 + kk) =~= x + y) by {
        assert forall|i: int| 0 <= i < n0 + kk implies #[trigger] q0.subrange(0, n0 + kk)[i] == (x + y)[i] by {
            if i >= n0 { assert(q0[i] == qa[i - n0]); }
        }
    }
    assert(all_cancelled(x)) by {
        assert forall|i: int| 0 <= i < x.len() implies (#[trigger] x[i]).cancelled by { assert(x[i] == q0[i]); }
    }
    lemma_live_aids_all_cancelled(x);
    lemma_live_aids_concat(x, y);
    assert(Seq::<int>::empty() + live_aids(y) == live_aids(y));
}

pub proof fn lemma_la_push(qa: Seq<Entry>, a: int, b: int)
    requires 0 <= a <= b < qa.len()
    ensures live_aids(qa.subrange(a, b + 1)) ==
        if qa[b].cancelled { live_aids(qa.subrange(a, b)) } else { live_aids(qa.subrange(a, b)).push(qa[b].aid) }
{
    assert(qa.subrange(a, b + 1) == qa.subrange(a, b).push(qa[b]));
    lemma_live_aids_push(qa.subrange(a, b), qa[b]);
}
pub proof fn lemma_la_cancelled(qa: Seq<Entry>, a: int, b: int, c: int)
    requires 0 <= a <= b <= c <= qa.len(), all_cancelled(qa.subrange(b, c))
    ensures live_aids(qa.subrange(a, c)) == live_aids(qa.subrange(a, b))
{
    let x = qa.subrange(a, b);
    let y = qa.subrange(b, c);
    assert(qa.subrange(a, c) =~= x + y);
    lemma_live_aids_concat(x, y);
    lemma_live_aids_all_cancelled(y);
    assert(live_aids(x) + Seq::<int>::empty() == live_aids(x));
}
pub open spec fn seg_origin(qa: Seq<Entry>, a: int, b: int, o: usize) -> bool {
    forall|i: int| a <= i < b ==> !(#[trigger] qa[i]).cancelled ==> qa[i].origin == o
}
pub struct Groups { pub lo: Seq<int>, pub hi: Seq<int>, pub tor: Seq<usize>, pub own: Seq<int> }

pub open spec fn groups_ok(qa: Seq<Entry>, tasks: Seq<Seq<int>>, g: Groups, upto: int) -> bool {
    g.lo.len() == tasks.len() && g.hi.len() == tasks.len() && g.tor.len() == tasks.len() && g.own.len() == upto
    && (forall|j: int| #![trigger g.lo[j]] #![trigger tasks[j]] 0 <= j < tasks.len() ==> 0 <= g.lo[j] <= g.hi[j] <= qa.len()
            && tasks[j] == live_aids(qa.subrange(g.lo[j], g.hi[j]))
            && seg_origin(qa, g.lo[j], g.hi[j], g.tor[j]))
    && (forall|j: int, k: int| 0 <= j < k < tasks.len() ==> #[trigger] g.tor[j] < #[trigger] g.tor[k])
    && (forall|i: int| 0 <= i < upto ==> 0 <= #[trigger] g.own[i] < tasks.len() && g.lo[g.own[i]] <= i < g.hi[g.own[i]])
}
pub open spec fn groups_push(g: Groups, upto: int, new_upto: int, o: usize, idx: int) -> Groups {
    Groups { lo: g.lo.push(upto), hi: g.hi.push(new_upto), tor: g.tor.push(o),
             own: g.own + Seq::new((new_upto - upto) as nat, |i: int| idx) }
}
pub proof fn lemma_groups_push(qa: Seq<Entry>, tasks: Seq<Seq<int>>, g: Groups, upto: int, new_upto: int, o: usize)
    requires
        groups_ok(qa, tasks, g, upto),
        0 <= upto <= new_upto <= qa.len(),
        seg_origin(qa, upto, new_upto, o),
        tasks.len() > 0 ==> g.tor[g.tor.len() - 1] < o,
    ensures
        groups_ok(qa, tasks.push(live_aids(qa.subrange(upto, new_upto))), groups_push(g, upto, new_upto, o, tasks.len() as int), new_upto),
{
    let t2 = tasks.push(live_aids(qa.subrange(upto, new_upto)));
    let g2 = groups_push(g, upto, new_upto, o, tasks.len() as int);
    assert forall|j: int| #![trigger g2.lo[j]] #![trigger t2[j]] 0 <= j < t2.len() implies 0 <= g2.lo[j] <= g2.hi[j] <= qa.len()
            && t2[j] == live_aids(qa.subrange(g2.lo[j], g2.hi[j]))
            && seg_origin(qa, g2.lo[j], g2.hi[j], g2.tor[j]) by {
        if j < tasks.len() {
            assert(t2[j] == tasks[j]);
            assert(g2.lo[j] == g.lo[j]); assert(g2.hi[j] == g.hi[j]); assert(g2.tor[j] == g.tor[j]);
        } else {
            assert(g2.lo[j] == upto); assert(g2.hi[j] == new_upto); assert(g2.tor[j] == o);
        }
    }
    assert forall|j: int, k: int| 0 <= j < k < t2.len() implies #[trigger] g2.tor[j] < #[trigger] g2.tor[k] by {
        if k < tasks.len() { assert(g2.tor[j] == g.tor[j]); assert(g2.tor[k] == g.tor[k]); }
        else {
            assert(g2.tor[k] == o);
            assert(g2.tor[j] == g.tor[j]);
            if j < g.tor.len() - 1 { assert(g.tor[j] < g.tor[g.tor.len() - 1]); }
        }
    }
    assert forall|i: int| 0 <= i < new_upto implies 0 <= #[trigger] g2.own[i] < t2.len() && g2.lo[g2.own[i]] <= i < g2.hi[g2.own[i]] by {
        if i < upto {
            assert(g2.own[i] == g.own[i]);
            assert(tasks[g.own[i]] == tasks[g.own[i]]);
        } else {
            assert(g2.own[i] == tasks.len());
        }
    }
    assert(g2.lo.len() == t2.len());
    assert(g2.hi.len() == t2.len());
    assert(g2.tor.len() == t2.len());
    assert(g2.own.len() == new_upto);
}
// the C07 consequence of groups_ok: two live due entries of the same origin are in the same task
pub proof fn lemma_same_origin_same_task(qa: Seq<Entry>, tasks: Seq<Seq<int>>, g: Groups, upto: int, i1: int, i2: int)
    requires
        groups_ok(qa, tasks, g, upto),
        0 <= i1 < upto, 0 <= i2 < upto,
        !qa[i1].cancelled, !qa[i2].cancelled, qa[i1].origin == qa[i2].origin,
    ensures g.own[i1] == g.own[i2]
{
    let j1 = g.own[i1]; let j2 = g.own[i2];
    assert(tasks[j1] == tasks[j1]); assert(tasks[j2] == tasks[j2]);
    assert(qa[i1].origin == g.tor[j1]);
    assert(qa[i2].origin == g.tor[j2]);
    if j1 < j2 { assert(g.tor[j1] < g.tor[j2]); }
    if j2 < j1 { assert(g.tor[j2] < g.tor[j1]); }
}

// ---------- queue content accounting (no loss, no invention, re-inserts present) ----------
pub open spec fn is_reins_of_consumed(qa: Seq<Entry>, upto: int, e: Entry) -> bool {
    exists|i: int| 0 <= i < upto && !(#[trigger] qa[i]).cancelled && is_reins(qa[i], e)
}
#[verifier::opaque]
pub open spec fn content_inv(qa: Seq<Entry>, q: Seq<Entry>, t: u64, upto: int) -> bool {
    // no live future entry is lost
    &&& (forall|j: int| 0 <= j < qa.len() && (#[trigger] qa[j]).time > t && !qa[j].cancelled ==> q.contains(qa[j]))
    // nothing is invented
    &&& (forall|j: int| 0 <= j < q.len() ==> qa.contains(#[trigger] q[j]) || is_reins_of_consumed(qa, upto, q[j]))
    // every consumed live periodic entry has its next occurrence queued
    &&& (forall|i: int| 0 <= i < upto && !(#[trigger] qa[i]).cancelled && qa[i].period is Some ==>
            exists|e: Entry| q.contains(e) && is_reins(qa[i], e))
}
pub proof fn lemma_content_init(qa: Seq<Entry>, t: u64)
    ensures content_inv(qa, qa, t, 0)
{
    reveal(content_inv);
    assert forall|j: int| 0 <= j < qa.len() implies qa.contains(#[trigger] qa[j]) by { }
}
pub proof fn lemma_content_pull(qa: Seq<Entry>, kk: int, t: u64, qb: Seq<Entry>, q1: Seq<Entry>, d: int)
    requires
        due_inv(qa, kk, t, qb, d), d >= 1,
        forall|i: int| 0 <= i < kk ==> (#[trigger] qa[i]).time == t,
        pull_rel(qb, q1), !qb[0].cancelled,
        content_inv(qa, qb, t, kk - d), no_zero_period(qa),
    ensures
        content_inv(qa, q1, t, kk - d + 1),
{
    reveal(content_inv);
    assert(qb[0] == qb.subrange(0, d)[0]);
    assert(qb[0] == qa[kk - d]);
    let dq = qb.drop_first();
    let upto = kk - d;
    // (1) no loss
    assert forall|j: int| 0 <= j < qa.len() && (#[trigger] qa[j]).time > t && !qa[j].cancelled implies q1.contains(qa[j]) by {
        assert(qb.contains(qa[j]));
        let m = choose|m: int| 0 <= m < qb.len() && qb[m] == qa[j];
        assert(m != 0);   // qb[0].time == t
        assert(dq[m - 1] == qa[j]);
        if qb[0].period is None {
            assert(q1[m - 1] == qa[j]);
        } else {
            let (p, e) = choose|p: int, e: Entry| 0 <= p <= qb.len() - 1 && is_reins(qb[0], e)
                && q1 == #[trigger] dq.insert(p, e)
                && (forall|i: int| 0 <= i < p ==> key_le(#[trigger] dq[i], e))
                && (forall|i: int| p <= i < qb.len() - 1 ==> !key_le(#[trigger] dq[i], e));
            if m - 1 < p { assert(q1[m - 1] == dq[m - 1]); } else { assert(q1[m] == dq[m - 1]); }
        }
    }
    // (2) no invention
    assert forall|j: int| 0 <= j < q1.len() implies qa.contains(#[trigger] q1[j]) || is_reins_of_consumed(qa, upto + 1, q1[j]) by {
        if qb[0].period is None {
            assert(q1[j] == qb[j + 1]);
            if !qa.contains(qb[j + 1]) {
                let i = choose|i: int| 0 <= i < upto && !(#[trigger] qa[i]).cancelled && is_reins(qa[i], qb[j + 1]);
                assert(0 <= i < upto + 1);
            }
        } else {
            let (p, e) = choose|p: int, e: Entry| 0 <= p <= qb.len() - 1 && is_reins(qb[0], e)
                && q1 == #[trigger] dq.insert(p, e)
                && (forall|i: int| 0 <= i < p ==> key_le(#[trigger] dq[i], e))
                && (forall|i: int| p <= i < qb.len() - 1 ==> !key_le(#[trigger] dq[i], e));
            if j == p {
                assert(q1[j] == e);
                assert(!qa[upto].cancelled && is_reins(qa[upto], e));
            } else {
                let m = if j < p { j + 1 } else { j };
                assert(q1[j] == qb[m]);
                if !qa.contains(qb[m]) {
                    let i = choose|i: int| 0 <= i < upto && !(#[trigger] qa[i]).cancelled && is_reins(qa[i], qb[m]);
                    assert(0 <= i < upto + 1);
                }
            }
        }
    }
    // (3) re-inserts present
    assert forall|i: int| 0 <= i < upto + 1 && !(#[trigger] qa[i]).cancelled && qa[i].period is Some implies
        exists|e: Entry| q1.contains(e) && is_reins(qa[i], e) by {
        if i < upto {
            let e = choose|e: Entry| qb.contains(e) && is_reins(qa[i], e);
            let m = choose|m: int| 0 <= m < qb.len() && qb[m] == e;
            assert(qa[i].time == t && qa[i].period != Some(0nat));
            assert(e.time > t);
            assert(m != 0);
            assert(dq[m - 1] == e);
            if qb[0].period is None { assert(q1[m - 1] == e); }
            else {
                let (p, e2) = choose|p: int, e2: Entry| 0 <= p <= qb.len() - 1 && is_reins(qb[0], e2)
                    && q1 == #[trigger] dq.insert(p, e2)
                    && (forall|k: int| 0 <= k < p ==> key_le(#[trigger] dq[k], e2))
                    && (forall|k: int| p <= k < qb.len() - 1 ==> !key_le(#[trigger] dq[k], e2));
                if m - 1 < p { assert(q1[m - 1] == e); } else { assert(q1[m] == e); }
            }
            assert(q1.contains(e));
        } else {
            let (p, e2) = choose|p: int, e2: Entry| 0 <= p <= qb.len() - 1 && is_reins(qb[0], e2)
                && q1 == #[trigger] dq.insert(p, e2)
                && (forall|k: int| 0 <= k < p ==> key_le(#[trigger] dq[k], e2))
                && (forall|k: int| p <= k < qb.len() - 1 ==> !key_le(#[trigger] dq[k], e2));
            assert(q1[p] == e2);
            assert(q1.contains(e2));
        }
    }
}

pub proof fn lemma_content_peek(qa: Seq<Entry>, kk: int, t: u64, q1: Seq<Entry>, q2: Seq<Entry>, bound: u64, n: int, upto: int)
    requires
        peek_rel(q1, q2, bound, n),
        content_inv(qa, q1, t, upto), 0 <= upto <= kk <= qa.len(),
        forall|i: int| 0 <= i < kk ==> (#[trigger] qa[i]).time == t,
        no_zero_period(qa),
    ensures
        content_inv(qa, q2, t, upto),
{
    reveal(content_inv);
    assert forall|j: int| 0 <= j < qa.len() && (#[trigger] qa[j]).time > t && !qa[j].cancelled implies q2.contains(qa[j]) by {
        let m = choose|m: int| 0 <= m < q1.len() && q1[m] == qa[j];
        assert(m >= n);          // dropped entries are cancelled
        assert(q2[m - n] == qa[j]);
    }
    assert forall|j: int| 0 <= j < q2.len() implies qa.contains(#[trigger] q2[j]) || is_reins_of_consumed(qa, upto, q2[j]) by {
        assert(q2[j] == q1[n + j]);
    }
    assert forall|i: int| 0 <= i < upto && !(#[trigger] qa[i]).cancelled && qa[i].period is Some implies
        exists|e: Entry| q2.contains(e) && is_reins(qa[i], e) by {
        let e = choose|e: Entry| q1.contains(e) && is_reins(qa[i], e);
        let m = choose|m: int| 0 <= m < q1.len() && q1[m] == e;
        assert(!e.cancelled);
        assert(m >= n);
        assert(q2[m - n] == e);
        assert(q2.contains(e));
    }
}
pub proof fn lemma_content_mono(qa: Seq<Entry>, q: Seq<Entry>, t: u64, upto: int, upto2: int)
    requires content_inv(qa, q, t, upto), 0 <= upto <= upto2 <= qa.len(), all_cancelled(qa.subrange(upto, upto2)),
    ensures content_inv(qa, q, t, upto2)
{
    reveal(content_inv);
    assert forall|j: int| 0 <= j < q.len() implies qa.contains(#[trigger] q[j]) || is_reins_of_consumed(qa, upto2, q[j]) by {
        if !qa.contains(q[j]) {
            let i = choose|i: int| 0 <= i < upto && !(#[trigger] qa[i]).cancelled && is_reins(qa[i], q[j]);
            assert(0 <= i < upto2);
        }
    }
    assert forall|i: int| 0 <= i < upto2 && !(#[trigger] qa[i]).cancelled && qa[i].period is Some implies
        exists|e: Entry| q.contains(e) && is_reins(qa[i], e) by {
        if i >= upto { assert(qa.subrange(upto, upto2)[i - upto] == qa[i]); assert(false); }
    }
}
