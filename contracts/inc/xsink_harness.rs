use sink::event_buffer::EventBuffer;
use sink::event_slot::EventSlot;
use sink::{EventSink, EventSinkStream, EventSinkWriter};
use std::collections::VecDeque;

#[derive(Clone, Copy, Debug, PartialEq)]
enum Op {
    Write(u8), // through writer handle 0 or 1
    Next,
    Open,
    Close,
    Drain,
}
fn ops_json(cap: Option<usize>, open: bool, ops: &[Op]) -> String {
    let v: Vec<String> = ops
        .iter()
        .map(|o| match o {
            Op::Write(w) => format!("\"write(through writer {})\"", w),
            Op::Next => "\"next\"".into(),
            Op::Open => "\"open\"".into(),
            Op::Close => "\"close\"".into(),
            Op::Drain => "\"drain\"".into(),
        })
        .collect();
    match cap {
        Some(c) => format!("{{\"sink\":\"EventBuffer\",\"capacity\":{},\"initially_open\":{},\"operations\":[{}]}}", c, open, v.join(",")),
        None => format!("{{\"sink\":\"EventSlot\",\"initially_open\":{},\"operations\":[{}]}}", open, v.join(",")),
    }
}
type Fail = (&'static str, &'static str, String);

fn run_buffer(cap: usize, open0: bool, ops: &[Op]) -> Option<Fail> {
    let mut b: EventBuffer<u32> = if open0 { EventBuffer::with_capacity(cap) } else { EventBuffer::with_capacity_closed(cap) };
    let w = [b.writer(), b.writer().clone()];
    let mut r: VecDeque<u32> = VecDeque::new();
    let mut open = open0;
    let mut next_val = 1u32;
    for (n, op) in ops.iter().enumerate() {
        match *op {
            Op::Write(i) => {
                w[i as usize].write(next_val);
                if open {
                    r.push_back(next_val);
                    while r.len() > cap {
                        r.pop_front();
                    }
                }
                next_val += 1;
            }
            Op::Next => {
                let got = b.next();
                let want = r.pop_front();
                if got != want {
                    return Some(("buffer-fifo-most-recent-capacity-events", "C17", format!("operation #{}: next() returned {:?}, expected {:?} (events are numbered 1, 2, … in writing order)", n, got, want)));
                }
            }
            Op::Open => {
                b.open();
                open = true;
            }
            Op::Close => {
                b.close();
                open = false;
            }
            Op::Drain => {
                let got: Result<Vec<u32>, ()> = b.__try_fold(Vec::new(), |mut acc, x| {
                    acc.push(x);
                    Ok(acc)
                });
                let want: Vec<u32> = r.drain(..).collect();
                if got != Ok(want.clone()) {
                    return Some(("buffer-fifo-most-recent-capacity-events", "C17", format!("operation #{}: draining yielded {:?}, expected {:?}", n, got, want)));
                }
            }
        }
    }
    let rest: Vec<u32> = std::iter::from_fn(|| b.next()).collect();
    let want: Vec<u32> = r.into_iter().collect();
    if rest != want {
        return Some(("buffer-fifo-most-recent-capacity-events", "C17", format!("at the end the buffer holds {:?}, expected {:?}", rest, want)));
    }
    None
}

fn run_slot(open0: bool, ops: &[Op]) -> Option<Fail> {
    let mut s: EventSlot<u32> = if open0 { EventSlot::new() } else { EventSlot::new_closed() };
    let w = [s.writer(), s.writer().clone()];
    let mut r: Option<u32> = None;
    let mut open = open0;
    let mut next_val = 1u32;
    for (n, op) in ops.iter().enumerate() {
        match *op {
            Op::Write(i) => {
                w[i as usize].write(next_val);
                if open {
                    r = Some(next_val);
                }
                next_val += 1;
            }
            Op::Next | Op::Drain => {
                let got = s.next();
                let want = r.take();
                if got != want {
                    return Some(("slot-most-recent-event-once", "C17", format!("operation #{}: next() returned {:?}, expected {:?} (events are numbered 1, 2, … in writing order)", n, got, want)));
                }
            }
            Op::Open => {
                s.open();
                open = true;
            }
            Op::Close => {
                s.close();
                open = false;
            }
        }
    }
    let got = s.next();
    if got != r {
        return Some(("slot-most-recent-event-once", "C17", format!("at the end the slot holds {:?}, expected {:?}", got, r)));
    }
    None
}

fn main() {
    let thorough = std::env::args().any(|a| a == "--thorough");
    panic::set_hook(Box::new(|_| {}));
    let mut total = 0u64;
    let mut first: BTreeMap<&'static str, (String, String, String)> = BTreeMap::new();
    let mut counts: BTreeMap<&'static str, u64> = BTreeMap::new();
    let mut samples: Vec<String> = Vec::new();
    let alpha = [Op::Write(0), Op::Write(1), Op::Next, Op::Open, Op::Close, Op::Drain];
    let depth = if thorough { 9 } else { 7 };
    for len in 0..=depth {
        let mut idx = vec![0usize; len];
        loop {
            let ops: Vec<Op> = idx.iter().map(|i| alpha[*i]).collect();
            for open0 in [true, false] {
                for cap in [Some(0usize), Some(1), Some(2), Some(3), None] {
                    if cap.is_none() && ops.contains(&Op::Drain) {
                        continue; // the slot has no separate drain
                    }
                    total += 1;
                    if total % 250_007 == 3 && samples.len() < 6 {
                        samples.push(ops_json(cap, open0, &ops));
                    }
                    let r = panic::catch_unwind(|| match cap {
                        Some(c) => run_buffer(c, open0, &ops),
                        None => run_slot(open0, &ops),
                    });
                    let fl = match r {
                        Ok(x) => x,
                        Err(_) => Some(("sink-does-not-panic", "C17", "the sink panicked".to_string())),
                    };
                    if let Some((check, props, detail)) = fl {
                        *counts.entry(check).or_insert(0) += 1;
                        first.entry(check).or_insert((props.to_string(), ops_json(cap, open0, &ops), detail));
                    }
                }
            }
            let mut i = 0;
            while i < len {
                idx[i] += 1;
                if idx[i] < alpha.len() {
                    break;
                }
                idx[i] = 0;
                i += 1;
            }
            if i == len {
                break;
            }
        }
    }
    let fs: Vec<String> = first
        .iter()
        .map(|(k, (props, sc, detail))| format!("{{\"check\":\"{}\",\"props\":\"{}\",\"count\":{},\"scenario\":{},\"detail\":{:?}}}", k, props, counts[k], sc, detail))
        .collect();
    println!("{{\"scenarios\":{},\"samples\":[{}],\"bound\":\"every sequence of up to {} operations over write (two writer handles) / next / open / close / drain, on an EventBuffer of capacity 0..3 and on an EventSlot, initially open or closed; one thread\",\"failures\":[{}]}}",
        total, samples.join(","), depth, fs.join(","));
}
