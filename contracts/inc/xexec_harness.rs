        use crate::simulation::ModelId;
        use std::collections::BTreeMap;
        use std::rc::Rc;

        // what one task does when it runs
        #[derive(Clone, Copy, Debug, PartialEq)]
        pub enum Step {
            Send,          // a message is pushed into some mailbox (counter + 1)
            Recv,          // a message is taken out of a mailbox (counter - 1)
            PanicAs(usize), // the model with this id panics while its task runs
            Spawn,         // the task queues one more task that receives one message
        }
        fn sc_json(outer: isize, tasks: &[Vec<Step>], second: Option<&Vec<Vec<Step>>>) -> String {
            format!("{{\"in_flight_count_of_the_enclosing_executor\":{},\"tasks_of_the_first_run\":\"{:?}\",\"tasks_of_a_second_run\":\"{:?}\"}}", outer, tasks, second)
        }
        type Fail = (&'static str, &'static str, String);

        fn queue_tasks(inner: &ExecutorInner, tasks: &[Vec<Step>]) {
            // the work queue is a LIFO: push in reverse so that the script runs in the written order
            for t in tasks.iter().rev() {
                let steps = t.clone();
                inner.context.queue.borrow_mut().push(Runnable(Box::new(move || {
                    for s in steps {
                        match s {
                            Step::Send => channel::count_send(),
                            Step::Recv => channel::count_recv(),
                            Step::PanicAs(id) => {
                                CURRENT_MODEL_ID.set(ModelId::mk(id));
                                std::panic::panic_any(4242u32);
                            }
                            Step::Spawn => {
                                EXECUTOR_CONTEXT.map(|cx| cx.queue.borrow_mut().push(Runnable(Box::new(|| channel::count_recv()))));
                            }
                        }
                    }
                })));
            }
        }
        fn expect(tasks: &[Vec<Step>], carried: isize) -> (Option<usize>, isize) {
            // (panicking model if any, in-flight balance when the run ends or panics)
            let mut bal = carried;
            let mut extra: Vec<Step> = Vec::new();
            for t in tasks {
                for s in t {
                    match s {
                        Step::Send => bal += 1,
                        Step::Recv => bal -= 1,
                        Step::PanicAs(id) => return (Some(*id), bal),
                        Step::Spawn => extra.push(Step::Recv),
                    }
                }
            }
            // spawned tasks run after the scripted ones (LIFO of the tasks pushed during the run)
            bal -= extra.len() as isize;
            (None, bal)
        }

        fn run_script(outer: isize, tasks: &[Vec<Step>], second: Option<&Vec<Vec<Step>>>) -> Option<Fail> {
            CURRENT_MODEL_ID.set(ModelId::no_model());
            channel::THREAD_MSG_COUNT.set(outer); // the enclosing executor (if any) has `outer` messages in flight
            let mut inner = ExecutorInner {
                context: ExecutorContext::new(1),
                active_tasks: RefCell::new(Slab::new()),
                simulation_context: SimulationContext {},
                abort_signal: Signal,
            };
            let mut carried = 0isize;
            let runs: Vec<&[Vec<Step>]> = match second {
                Some(s) => vec![tasks, s.as_slice()],
                None => vec![tasks],
            };
            for (ri, ts) in runs.iter().enumerate() {
                queue_tasks(&inner, ts);
                let res = inner.run();
                let (want_panic, bal) = expect(ts, carried);
                match (want_panic, &res) {
                    (Some(id), Err(ExecutorError::Panic(mid, payload))) => {
                        if mid.value() != Some(id) || payload.downcast_ref::<u32>() != Some(&4242) {
                            return Some(("panic-reported-with-the-panicking-model-and-payload", "C11", format!("run #{}: model {} panicked with payload 4242; reported model {:?}, payload is the original: {}", ri, id, mid.value(), payload.downcast_ref::<u32>() == Some(&4242))));
                        }
                        // ... but the enclosing executor is: its handler may catch the nested run's error and go on
                        if channel::THREAD_MSG_COUNT.get() != outer {
                            return Some(("enclosing-executor-count-preserved", "C06", format!("run #{}: model {} panicked in the nested run; the enclosing executor had {} message(s) in flight before the nested run and {} after it", ri, id, outer, channel::THREAD_MSG_COUNT.get())));
                        }
                        return None; // a panicking executor is not used again
                    }
                    (Some(id), other) => {
                        let what = match other {
                            Ok(()) => "Ok".to_string(),
                            Err(ExecutorError::UnprocessedMessages(n)) => format!("UnprocessedMessages({})", n),
                            Err(ExecutorError::Timeout) => "Timeout".to_string(),
                            Err(ExecutorError::Panic(..)) => unreachable!(),
                        };
                        return Some(("panic-reported-as-panic", "C11", format!("run #{}: model {} panicked (in-flight count {} at that moment); the executor reported {}", ri, id, bal, what)));
                    }
                    (None, Ok(())) => {
                        if bal != 0 {
                            return Some(("unprocessed-messages-reported", "C06", format!("run #{}: {} message(s) sent and not received, the run reported Ok", ri, bal)));
                        }
                    }
                    (None, Err(ExecutorError::UnprocessedMessages(n))) => {
                        if bal <= 0 || *n != bal as usize {
                            return Some(("no-loss-reported-when-every-message-was-processed", "C06",
                                format!("run #{}: sent minus received is {} (the enclosing executor had {} in flight); the run reported UnprocessedMessages({})", ri, bal, outer, n)));
                        }
                        carried = bal; // the messages are still in their mailboxes
                    }
                    (None, Err(_)) => return Some(("unexpected-executor-error", "C06,C11", format!("run #{}: an error although nothing failed", ri))),
                }
                // the enclosing executor's count is handed back untouched
                if channel::THREAD_MSG_COUNT.get() != outer {
                    return Some(("enclosing-executor-count-preserved", "C06", format!("run #{}: the enclosing executor had {} message(s) in flight before the nested run and {} after it", ri, outer, channel::THREAD_MSG_COUNT.get())));
                }
                if bal < 0 {
                    return None; // a negative balance (a message received that this executor did not send) is outside the model
                }
            }
            None
        }

        pub fn run_all() {
            let thorough = std::env::args().any(|a| a == "--thorough");
            std::panic::set_hook(Box::new(|_| {}));
            let mut total = 0u64;
            let mut first: BTreeMap<&'static str, (String, String, String)> = BTreeMap::new();
            let mut counts: BTreeMap<&'static str, u64> = BTreeMap::new();
            let mut samples: Vec<String> = Vec::new();
            let alpha = [Step::Send, Step::Recv, Step::PanicAs(0), Step::PanicAs(3), Step::Spawn];
            // every script of up to `depth` steps, cut into 1 or 2 tasks at every position
            let depth = if thorough { 6 } else { 5 };
            let mut scripts: Vec<Vec<Vec<Step>>> = Vec::new();
            for len in 0..=depth {
                let mut idx = vec![0usize; len];
                loop {
                    let steps: Vec<Step> = idx.iter().map(|i| alpha[*i]).collect();
                    // balance must never go negative (a message cannot be received before it was sent) and spawn needs a message
                    let mut ok = true;
                    let mut b = 0i32;
                    let mut spawned = 0;
                    for s in &steps {
                        match s {
                            Step::Send => b += 1,
                            Step::Recv => b -= 1,
                            Step::Spawn => spawned += 1,
                            Step::PanicAs(_) => break,
                        }
                        if b < 0 {
                            ok = false;
                        }
                    }
                    if b - spawned < 0 {
                        ok = false;
                    }
                    if ok {
                        scripts.push(vec![steps.clone()]);
                        for cut in 1..len {
                            scripts.push(vec![steps[..cut].to_vec(), steps[cut..].to_vec()]);
                        }
                    }
                    let mut i = 0;
                    while i < len {
                        idx[i] += 1;
                        if idx[i] < alpha.len() {
                            break;
                        }
                        idx[i] = 0;
                        i += 1;
                    }
                    if i == len {
                        break;
                    }
                }
            }
            let seconds: Vec<Option<Vec<Vec<Step>>>> = vec![None, Some(vec![vec![]]), Some(vec![vec![Step::Recv]]), Some(vec![vec![Step::Send, Step::Recv]]), Some(vec![vec![Step::Recv, Step::PanicAs(2)]])];
            for outer in [0isize, 2, -1] {
                for sc in &scripts {
                    for second in &seconds {
                        // a second run only makes sense when the first one did not panic; `Recv` needs something carried over
                        let (p, bal) = expect(sc, 0);
                        if let Some(s2) = second {
                            if p.is_some() {
                                continue;
                            }
                            let needs = s2.iter().flatten().take_while(|s| !matches!(s, Step::PanicAs(_))).fold((0i32, 0i32), |(b, m), s| {
                                let nb = match s { Step::Send => b + 1, Step::Recv => b - 1, _ => b };
                                (nb, m.min(nb))
                            }).1;
                            if (bal as i32) + needs < 0 {
                                continue;
                            }
                        }
                        total += 1;
                        if total % 9973 == 5 && samples.len() < 6 {
                            samples.push(sc_json(outer, sc, second.as_ref()));
                        }
                        let r = std::panic::catch_unwind(|| run_script(outer, sc, second.as_ref()));
                        let fl = match r {
                            Ok(x) => x,
                            Err(_) => {
                                // a task's panic that escapes is a reporting failure (C11); a panic of the run itself
                                // without any panicking task comes from its message accounting (C06)
                                let has_panic = sc.iter().flatten().any(|s| matches!(s, Step::PanicAs(_)))
                                    || second.as_ref().map(|s2| s2.iter().flatten().any(|s| matches!(s, Step::PanicAs(_)))).unwrap_or(false);
                                if has_panic {
                                    Some(("task-panic-does-not-escape-the-run", "C11", "ExecutorInner::run let a task's panic escape".to_string()))
                                } else {
                                    Some(("run-does-not-panic-on-its-own-accounting", "C06", "ExecutorInner::run panicked although no task did (its in-flight count went negative or overflowed)".to_string()))
                                }
                            }
                        };
                        if let Some((check, props, detail)) = fl {
                            *counts.entry(check).or_insert(0) += 1;
                            first.entry(check).or_insert((props.to_string(), sc_json(outer, sc, second.as_ref()), detail));
                        }
                    }
                }
            }
            channel::THREAD_MSG_COUNT.set(0);
            let fs: Vec<String> = first
                .iter()
                .map(|(k, (props, sc, detail))| format!("{{\"check\":\"{}\",\"props\":\"{}\",\"count\":{},\"scenario\":{},\"detail\":{:?}}}", k, props, counts[k], sc, detail))
                .collect();
            println!("{{\"scenarios\":{},\"samples\":[{}],\"bound\":\"single-threaded executor only: every script of up to {} steps over send / receive / panic of model 0 or 3 / spawn-a-receiving-task, as one task or cut into two at every position, followed by no second run or one of four; each with the enclosing executor's in-flight count at 0, 2 and -1\",\"failures\":[{}]}}",
                total, samples.join(","), depth, fs.join(","));
        }
