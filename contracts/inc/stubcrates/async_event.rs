//! Executable stub of the `async-event` crate (the part nexosim uses): an event on which tasks wait until a predicate
//! yields a value. A notification wakes waiters that are registered at that moment; it is not stored.
use std::future::Future;
use std::marker::PhantomData;
use std::pin::Pin;
use std::sync::atomic::{AtomicU64, Ordering};
use std::sync::Mutex;
use std::task::{Context, Poll, Waker};

pub struct Event {
    waiters: Mutex<Vec<(u64, Waker)>>,
    next_id: AtomicU64,
}
impl Event {
    pub fn new() -> Self {
        Event { waiters: Mutex::new(Vec::new()), next_id: AtomicU64::new(0) }
    }
    pub fn notify_one(&self) {
        self.notify(1)
    }
    pub fn notify(&self, n: usize) {
        for _ in 0..n {
            let w = {
                let mut g = self.waiters.lock().unwrap();
                if g.is_empty() {
                    None
                } else {
                    Some(g.remove(0))
                }
            };
            match w {
                Some((_, w)) => w.wake(),
                None => break,
            }
        }
    }
    pub fn notify_all(&self) {
        let ws: Vec<(u64, Waker)> = std::mem::take(&mut *self.waiters.lock().unwrap());
        for (_, w) in ws {
            w.wake();
        }
    }
    pub fn wait_until<F, T>(&self, predicate: F) -> WaitUntil<'_, F, T>
    where
        F: FnMut() -> Option<T>,
    {
        WaitUntil { event: self, predicate, id: self.next_id.fetch_add(1, Ordering::Relaxed), _t: PhantomData }
    }
}
pub struct WaitUntil<'a, F, T> {
    event: &'a Event,
    predicate: F,
    id: u64,
    _t: PhantomData<fn() -> T>,
}
impl<F: Unpin, T> Unpin for WaitUntil<'_, F, T> {}
impl<F: FnMut() -> Option<T> + Unpin, T> Future for WaitUntil<'_, F, T> {
    type Output = T;
    fn poll(mut self: Pin<&mut Self>, cx: &mut Context<'_>) -> Poll<T> {
        let this = &mut *self;
        this.event.waiters.lock().unwrap().retain(|(i, _)| *i != this.id);
        if let Some(v) = (this.predicate)() {
            return Poll::Ready(v);
        }
        this.event.waiters.lock().unwrap().push((this.id, cx.waker().clone()));
        Poll::Pending
    }
}
impl<F, T> Drop for WaitUntil<'_, F, T> {
    fn drop(&mut self) {
        let id = self.id;
        self.event.waiters.lock().unwrap().retain(|(i, _)| *i != id);
    }
}
