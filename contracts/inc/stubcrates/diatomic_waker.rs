//! Executable stub of the `diatomic-waker` crate (the parts nexosim uses): a slot for the waker of ONE waiting task.
pub mod primitives {
    use std::future::Future;
    use std::marker::PhantomData;
    use std::pin::Pin;
    use std::sync::Mutex;
    use std::task::{Context, Poll, Waker};
    pub struct DiatomicWaker {
        slot: Mutex<Option<Waker>>,
    }
    impl DiatomicWaker {
        pub fn new() -> Self {
            DiatomicWaker { slot: Mutex::new(None) }
        }
        pub fn notify(&self) {
            let w = self.slot.lock().unwrap().clone();
            if let Some(w) = w {
                w.wake();
            }
        }
        pub unsafe fn register(&self, waker: &Waker) {
            *self.slot.lock().unwrap() = Some(waker.clone());
        }
        pub unsafe fn unregister(&self) {
            *self.slot.lock().unwrap() = None;
        }
        pub unsafe fn wait_until<P, T>(&self, predicate: P) -> WaitUntil<'_, P, T>
        where
            P: FnMut() -> Option<T>,
        {
            WaitUntil { w: self, predicate, _t: PhantomData }
        }
    }
    pub struct WaitUntil<'a, P, T> {
        w: &'a DiatomicWaker,
        predicate: P,
        _t: PhantomData<fn() -> T>,
    }
    impl<P: Unpin, T> Unpin for WaitUntil<'_, P, T> {}
    impl<P: FnMut() -> Option<T> + Unpin, T> Future for WaitUntil<'_, P, T> {
        type Output = T;
        fn poll(mut self: Pin<&mut Self>, cx: &mut Context<'_>) -> Poll<T> {
            let this = &mut *self;
            if let Some(v) = (this.predicate)() {
                *this.w.slot.lock().unwrap() = None;
                return Poll::Ready(v);
            }
            *this.w.slot.lock().unwrap() = Some(cx.waker().clone());
            Poll::Pending
        }
    }
}
pub struct WakeSink {
    slot: std::sync::Arc<std::sync::Mutex<Option<std::task::Waker>>>,
}
#[derive(Clone)]
pub struct WakeSource {
    slot: std::sync::Arc<std::sync::Mutex<Option<std::task::Waker>>>,
}
impl WakeSink {
    pub fn new() -> Self {
        WakeSink { slot: std::sync::Arc::new(std::sync::Mutex::new(None)) }
    }
    pub fn source(&self) -> WakeSource {
        WakeSource { slot: self.slot.clone() }
    }
    pub fn register(&mut self, waker: &std::task::Waker) {
        *self.slot.lock().unwrap() = Some(waker.clone());
    }
    pub fn unregister(&mut self) {
        *self.slot.lock().unwrap() = None;
    }
}
impl WakeSource {
    pub fn notify(&self) {
        let w = self.slot.lock().unwrap().clone();
        if let Some(w) = w {
            w.wake_by_ref();
        }
    }
}
