//! Executable stub of `crossbeam_utils::CachePadded`: a transparent wrapper.
use std::ops::{Deref, DerefMut};
pub struct CachePadded<T>(T);
impl<T> CachePadded<T> {
    pub const fn new(t: T) -> Self {
        CachePadded(t)
    }
    pub fn into_inner(self) -> T {
        self.0
    }
}
impl<T> Deref for CachePadded<T> {
    type Target = T;
    fn deref(&self) -> &T {
        &self.0
    }
}
impl<T> DerefMut for CachePadded<T> {
    fn deref_mut(&mut self) -> &mut T {
        &mut self.0
    }
}
