//! Executable stub of the `recycle-box` crate: a plain `Box` (no storage recycling), with the API nexosim uses.
use std::ops::{Deref, DerefMut};
use std::pin::Pin;
pub struct RecycleBox<T: ?Sized>(pub Box<T>);
impl<T> RecycleBox<T> {
    pub fn new(t: T) -> Self {
        RecycleBox(Box::new(t))
    }
}
impl<T: ?Sized> RecycleBox<T> {
    pub fn recycle<U>(_b: RecycleBox<T>, u: U) -> RecycleBox<U> {
        RecycleBox(Box::new(u))
    }
    pub fn vacate(b: RecycleBox<T>) -> RecycleBox<()> {
        drop(b);
        RecycleBox(Box::new(()))
    }
    pub fn into_pin(b: RecycleBox<T>) -> Pin<RecycleBox<T>> {
        // like Box::into_pin: the content never moves again
        unsafe { Pin::new_unchecked(b) }
    }
    pub fn vacate_pinned(b: Pin<RecycleBox<T>>) -> RecycleBox<()> {
        drop(b);
        RecycleBox(Box::new(()))
    }
    pub fn recycle_pinned<U>(b: Pin<RecycleBox<T>>, u: U) -> RecycleBox<U> {
        drop(b);
        RecycleBox(Box::new(u))
    }
}
impl<T: ?Sized> Deref for RecycleBox<T> {
    type Target = T;
    fn deref(&self) -> &T {
        &self.0
    }
}
impl<T: ?Sized> DerefMut for RecycleBox<T> {
    fn deref_mut(&mut self) -> &mut T {
        &mut self.0
    }
}
#[macro_export]
macro_rules! coerce_box {
    ($e:expr) => {{
        let b = $e;
        $crate::RecycleBox(b.0)
    }};
}
