// ---------- abstract view of a queue entry ----------
pub struct Entry {
    pub time: u64,
    pub origin: usize,
    pub aid: int,              // identity of the queued action
    pub series: int,           // identity of the periodic series the action belongs to
    pub cancelled: bool,       // what `is_cancelled()` answers during this step
    pub period: Option<nat>,   // Some(p) for periodic actions
}

pub open spec fn key_le(a: Entry, b: Entry) -> bool {
    a.time < b.time || (a.time == b.time && a.origin <= b.origin)
}
pub open spec fn sorted(s: Seq<Entry>) -> bool {
    forall|i: int, j: int| 0 <= i < j < s.len() ==> key_le(#[trigger] s[i], #[trigger] s[j])
}
pub open spec fn all_later(s: Seq<Entry>, t: u64) -> bool {
    forall|i: int| 0 <= i < s.len() ==> (#[trigger] s[i]).time > t
}
pub open spec fn no_zero_period(s: Seq<Entry>) -> bool {
    forall|i: int| 0 <= i < s.len() ==> (#[trigger] s[i]).period != Some(0nat)
}

#[verifier::external_body]
pub struct Action { x: u8 }
#[verifier::external_body]
pub struct SchedulerQueue { x: u8 }
#[verifier::external_body]
pub struct ActFut { x: u8 }
impl ActFut { pub uninterp spec fn aid(&self) -> int; }
impl Action {
    pub uninterp spec fn aid(&self) -> int;
    pub uninterp spec fn series(&self) -> int;
    pub uninterp spec fn cancelled(&self) -> bool;
    pub uninterp spec fn period(&self) -> Option<nat>;
    #[verifier::external_body]
    pub fn is_cancelled(&self) -> (r: bool) ensures r == self.cancelled() { unimplemented!() }
    // Action::next / the four ActionInner::next impls (unit sched): Some((clone, period)) iff periodic
    #[verifier::external_body]
    pub fn next(&self) -> (r: Option<(Action, Duration)>)
        ensures
            r.is_some() == self.period().is_some(),
            r.is_some() ==> dur_ns(r.unwrap().1) == self.period().unwrap()
                && r.unwrap().0.period() == self.period() && r.unwrap().0.cancelled() == self.cancelled()
                && r.unwrap().0.series() == self.series(),
    { unimplemented!() }
    #[verifier::external_body]
    pub fn into_future(self) -> (r: ActFut) ensures r.aid() == self.aid() { unimplemented!() }
}

pub open spec fn entry_of(key: (MonotonicTime, usize), a: Action) -> Entry {
    Entry { time: key.0.t, origin: key.1, aid: a.aid(), series: a.series(), cancelled: a.cancelled(), period: a.period() }
}

impl SchedulerQueue {
    // PriorityQueue<(MonotonicTime, usize), Action> viewed as the sequence of its entries in pull order
    pub uninterp spec fn view(&self) -> Seq<Entry>;
    // monitor pass: is the Mutex around the queue held by the current thread?        //@if mon
    pub uninterp spec fn locked(&self) -> bool;                                        //@if mon

    // contract of util::PriorityQueue (proved in unit pq): stable sorted insertion, head extraction
    #[verifier::external_body]
    pub fn insert(&mut self, key: (MonotonicTime, usize), a: Action)
        requires sorted(old(self).view()),
            old(self).locked(),                          //@ C08 #queue-touched-only-under-its-lock //@if mon
        ensures
            final(self).locked(),                                                      //@if mon
            sorted(final(self).view()),
            exists|p: int| 0 <= p <= old(self).view().len()
              && #[trigger] final(self).view() == old(self).view().insert(p, entry_of(key, a))
              && (forall|i: int| 0 <= i < p ==> key_le(#[trigger] old(self).view()[i], entry_of(key, a)))
              && (forall|i: int| p <= i < old(self).view().len() ==> !key_le(#[trigger] old(self).view()[i], entry_of(key, a))),
    { unimplemented!() }
    #[verifier::external_body]
    pub fn pull(&mut self) -> (r: Option<((MonotonicTime, usize), Action)>)
        requires old(self).locked(),                     //@ C08 #queue-touched-only-under-its-lock //@if mon
        ensures
            final(self).locked(),                                                      //@if mon
            old(self).view().len() == 0 ==> r.is_none() && final(self).view() == old(self).view(),
            old(self).view().len() > 0 ==> r.is_some() && final(self).view() == old(self).view().drop_first()
                && entry_of(r.unwrap().0, r.unwrap().1) == old(self).view()[0],
    { unimplemented!() }
    #[verifier::external_body]
    pub fn peek(&self) -> (r: Option<(&(MonotonicTime, usize), &Action)>)
        requires self.locked(),                          //@ C08 #queue-touched-only-under-its-lock //@if mon
        ensures
            self.view().len() == 0 ==> r.is_none(),
            self.view().len() > 0 ==> r.is_some() && entry_of(*r.unwrap().0, *r.unwrap().1) == self.view()[0],
    { unimplemented!() }
}

