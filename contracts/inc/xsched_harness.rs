struct Rec {
    log: Vec<u32>,
}
impl Model for Rec {}
fn handler(m: &mut Rec, arg: u32) {
    m.log.push(arg);
}

#[derive(Clone, Copy, Debug, PartialEq)]
enum Req {
    // Scheduler::schedule with an action built beforehand (what EventSource::{event, keyed_event, ...} hand out)
    PrebuiltOnce,
    PrebuiltKeyedOnce,
    PrebuiltPeriodic,
    PrebuiltKeyedPeriodic,
    // schedule_*_event
    Event,
    KeyedEvent,
    PeriodicEvent,
    KeyedPeriodicEvent,
}
impl Req {
    fn periodic(self) -> bool {
        matches!(self, Req::PrebuiltPeriodic | Req::PrebuiltKeyedPeriodic | Req::PeriodicEvent | Req::KeyedPeriodicEvent)
    }
    fn keyed(self) -> bool {
        matches!(self, Req::PrebuiltKeyedOnce | Req::PrebuiltKeyedPeriodic | Req::KeyedEvent | Req::KeyedPeriodicEvent)
    }
}
#[derive(Clone, Copy, Debug, PartialEq)]
enum Dl {
    Rel(u64),
    Abs(u64),
}
#[derive(Clone, Copy, Debug, PartialEq)]
enum Variant {
    Deliver,            // turn the queued action into its future and run it
    Spawn,              // hand the queued action to the executor
    CancelWhileQueued,  // cancel the key, then look at the queued action (and its next occurrence)
    CancelAfterHandOff, // build the future, cancel the key, then run the future: the model must drop the message
}
#[derive(Clone, Copy, Debug)]
struct Sc {
    now: u64,
    pre: bool,
    req: Req,
    dl: Dl,
    period: u64,
    origin: usize,
    variant: Variant,
}
fn sc_json(s: &Sc) -> String {
    format!("{{\"now\":{},\"one_entry_already_queued\":{},\"request\":\"{:?}\",\"deadline\":\"{:?}\",\"period\":{},\"origin\":{},\"then\":\"{:?}\"}}",
        s.now, s.pre, s.req, s.dl, s.period, s.origin, s.variant)
}

type Fail = (&'static str, &'static str, String);
const ARG: u32 = 42;
const PRE_ORIGIN: usize = 99;

fn run(sc: &Sc) -> Vec<Fail> {
    FUEL.store(0, Ordering::Relaxed);
    let mut fails: Vec<Fail> = Vec::new();
    let queue: Arc<Mutex<SchedulerQueue>> = Arc::new(Mutex::new(PriorityQueue::new()));
    let time = Arc::new(AtomicU64::new(sc.now));
    let sched = GlobalScheduler::new(queue.clone(), AtomicTimeReader(time.clone()));
    let sender = Sender::new(Rec { log: Vec::new() });
    let addr = Address(sender.clone());
    if sc.pre {
        let s2 = sender.clone();
        sched.schedule_from(Duration::from_secs(1), Action::new(OnceAction::new(process_event(handler, 7u32, s2))), PRE_ORIGIN).ok();
    }
    let period = Duration::from_secs(sc.period);
    let mut key: Option<ActionKey> = None;
    let res: Result<(), SchedulingError> = {
        macro_rules! go {
            ($dl:expr) => {{
                let dl = $dl;
                match sc.req {
                    Req::PrebuiltOnce => {
                        let s = sender.clone();
                        sched.schedule_from(dl, Action::new(OnceAction::new(process_event(handler, ARG, s))), sc.origin)
                    }
                    Req::PrebuiltKeyedOnce => {
                        let s = sender.clone();
                        let k = ActionKey::new();
                        key = Some(k.clone());
                        sched.schedule_from(dl, Action::new(KeyedOnceAction::new(move |ek| send_keyed_event(ek, handler, ARG, s), k)), sc.origin)
                    }
                    Req::PrebuiltPeriodic => {
                        let s = sender.clone();
                        sched.schedule_from(dl, Action::new(PeriodicAction::new(move || process_event(handler, ARG, s), period)), sc.origin)
                    }
                    Req::PrebuiltKeyedPeriodic => {
                        let s = sender.clone();
                        let k = ActionKey::new();
                        key = Some(k.clone());
                        sched.schedule_from(dl, Action::new(KeyedPeriodicAction::new(move |ek| send_keyed_event(ek, handler, ARG, s), period, k)), sc.origin)
                    }
                    Req::Event => sched.schedule_event_from(dl, handler, ARG, &addr, sc.origin),
                    Req::KeyedEvent => sched.schedule_keyed_event_from(dl, handler, ARG, &addr, sc.origin).map(|k| key = Some(k)),
                    Req::PeriodicEvent => sched.schedule_periodic_event_from(dl, period, handler, ARG, &addr, sc.origin),
                    Req::KeyedPeriodicEvent => sched.schedule_keyed_periodic_event_from(dl, period, handler, ARG, &addr, sc.origin).map(|k| key = Some(k)),
                }
            }};
        }
        match sc.dl {
            Dl::Rel(d) => go!(Duration::from_secs(d)),
            Dl::Abs(t) => go!(MonotonicTime(t)),
        }
    };
    let t = match sc.dl {
        Dl::Rel(d) => sc.now + d,
        Dl::Abs(t) => t,
    };
    let want_accept = t > sc.now && !(sc.req.periodic() && sc.period == 0);
    // ---- C08: accepted iff the deadline is strictly in the future and the period, if any, is non-zero
    if res.is_ok() != want_accept {
        fails.push(("accepted-iff-future-deadline-and-non-zero-period", "C08",
            format!("the request was {} ({:?}); deadline {} vs now {}, period {}", if res.is_ok() { "accepted" } else { "rejected" }, res, t, sc.now,
                if sc.req.periodic() { sc.period.to_string() } else { "none".into() })));
        return fails;
    }
    if sched.time() != MonotonicTime(sc.now) {
        fails.push(("request-does-not-move-the-time", "C08", format!("time is {:?} after the request", sched.time())));
    }
    // drain the queue
    let mut entries: Vec<((MonotonicTime, usize), Action)> = Vec::new();
    {
        let mut q = queue.lock().unwrap();
        while let Some(e) = q.pull() {
            burn();
            entries.push(e);
        }
    }
    let n_pre = if sc.pre { 1 } else { 0 };
    if !want_accept {
        // ---- C08: a rejected request has no effect
        if entries.len() != n_pre {
            fails.push(("rejected-request-has-no-effect", "C08", format!("{} entries queued after a rejected request, expected {}", entries.len(), n_pre)));
        }
        return fails;
    }
    // ---- C08: an accepted request is queued exactly once, at its deadline, under its origin
    let mine: Vec<usize> = entries.iter().enumerate().filter(|(_, e)| e.0 .1 != PRE_ORIGIN).map(|(i, _)| i).collect();
    if entries.len() != n_pre + 1 || mine.len() != 1 || entries[mine[0]].0 != (MonotonicTime(t), sc.origin) {
        fails.push(("accepted-request-queued-once-at-its-deadline", "C08",
            format!("queue keys after the request: {:?}; expected one new entry with key ({}, {})", entries.iter().map(|e| (e.0 .0 .0, e.0 .1)).collect::<Vec<_>>(), t, sc.origin)));
        return fails;
    }
    let (_, action) = entries.remove(mine[0]);
    // ---- C10: every later occurrence carries the requested period; one-shot actions have none
    let next = action.next();
    match (&next, sc.req.periodic()) {
        (Some((b, p)), true) => {
            let p2 = b.next().map(|x| x.1);
            if *p != period || p2 != Some(period) {
                fails.push(("every-occurrence-carries-the-requested-period", "C10", format!("requested period {:?}; next occurrence {:?}, the one after {:?}", period, p, p2)));
            }
        }
        (None, false) => {}
        (Some(_), false) => fails.push(("one-shot-has-no-next-occurrence", "C10", "a one-shot action reports a next occurrence".into())),
        (None, true) => fails.push(("every-occurrence-carries-the-requested-period", "C10", "a periodic action reports no next occurrence".into())),
    }
    // ---- C09: not cancelled until its key is
    if action.is_cancelled() {
        fails.push(("not-cancelled-until-the-key-is", "C09", "the queued action reports cancelled although its key was never cancelled".into()));
        return fails;
    }
    if sc.req.keyed() != key.is_some() {
        fails.push(("keyed-request-returns-a-key", "C09", "no key for a keyed request".into()));
        return fails;
    }
    let log = |s: &Sender<Rec>| s.with(|m| m.log.clone());
    match sc.variant {
        Variant::Deliver => {
            let done = block_on(action.into_future()).is_some();
            if !done || log(&sender) != vec![ARG] {
                fails.push(("accepted-request-delivers-its-event-once", "C08", format!("after running the action's future the model saw {:?}, expected [{}]", log(&sender), ARG)));
            }
            // the next occurrence delivers again
            if let Some((b, _)) = next {
                block_on(b.into_future());
                if log(&sender) != vec![ARG, ARG] {
                    fails.push(("accepted-request-delivers-its-event-once", "C08", format!("after the next occurrence the model saw {:?}", log(&sender))));
                }
            }
        }
        Variant::Spawn => {
            action.spawn_and_forget(&Executor);
            if log(&sender) != vec![ARG] {
                fails.push(("accepted-request-delivers-its-event-once", "C08", format!("after spawning the action the model saw {:?}, expected [{}]", log(&sender), ARG)));
            }
        }
        Variant::CancelWhileQueued => {
            if let Some(k) = key {
                k.cancel();
                let nb = next.as_ref().map(|x| x.0.is_cancelled());
                let later = action.next().map(|x| x.0.is_cancelled());
                if !action.is_cancelled() || nb == Some(false) || later == Some(false) {
                    fails.push(("key-cancels-the-queued-action-and-its-later-occurrences", "C09",
                        format!("after key.cancel(): queued action cancelled={}, occurrence cloned before the cancel: {:?}, cloned after: {:?}", action.is_cancelled(), nb, later)));
                }
            }
        }
        Variant::CancelAfterHandOff => {
            if let Some(k) = key {
                let fut = action.into_future();
                k.cancel();
                block_on(fut);
                if !log(&sender).is_empty() {
                    fails.push(("cancelled-message-is-dropped-in-the-model", "C09",
                        format!("the key was cancelled after the action had been turned into its message, yet the model saw {:?}", log(&sender))));
                }
            }
        }
    }
    fails
}

// ---- sequences of requests: what is queued is yielded by (deadline, origin), and in request order among equal keys (C07)
fn issue(sched: &GlobalScheduler, sender: &Sender<Rec>, addr: &Address<Rec>, req: Req, dl: Dl, origin: usize, arg: u32) -> Result<(), SchedulingError> {
    let period = Duration::from_secs(2);
    macro_rules! go {
        ($dl:expr) => {{
            let dl = $dl;
            match req {
                Req::PrebuiltOnce => {
                    let s = sender.clone();
                    sched.schedule_from(dl, Action::new(OnceAction::new(process_event(handler, arg, s))), origin)
                }
                Req::PrebuiltKeyedOnce => {
                    let s = sender.clone();
                    sched.schedule_from(dl, Action::new(KeyedOnceAction::new(move |ek| send_keyed_event(ek, handler, arg, s), ActionKey::new())), origin)
                }
                Req::PrebuiltPeriodic => {
                    let s = sender.clone();
                    sched.schedule_from(dl, Action::new(PeriodicAction::new(move || process_event(handler, arg, s), period)), origin)
                }
                Req::PrebuiltKeyedPeriodic => {
                    let s = sender.clone();
                    sched.schedule_from(dl, Action::new(KeyedPeriodicAction::new(move |ek| send_keyed_event(ek, handler, arg, s), period, ActionKey::new())), origin)
                }
                Req::Event => sched.schedule_event_from(dl, handler, arg, addr, origin),
                Req::KeyedEvent => sched.schedule_keyed_event_from(dl, handler, arg, addr, origin).map(|_| ()),
                Req::PeriodicEvent => sched.schedule_periodic_event_from(dl, period, handler, arg, addr, origin),
                Req::KeyedPeriodicEvent => sched.schedule_keyed_periodic_event_from(dl, period, handler, arg, addr, origin).map(|_| ()),
            }
        }};
    }
    match dl {
        Dl::Rel(d) => go!(Duration::from_secs(d)),
        Dl::Abs(t) => go!(MonotonicTime(t)),
    }
}
fn run_seq(now: u64, reqs: &[(Req, Dl, usize)]) -> Vec<Fail> {
    FUEL.store(0, Ordering::Relaxed);
    let mut fails: Vec<Fail> = Vec::new();
    let queue: Arc<Mutex<SchedulerQueue>> = Arc::new(Mutex::new(PriorityQueue::new()));
    let sched = GlobalScheduler::new(queue.clone(), AtomicTimeReader(Arc::new(AtomicU64::new(now))));
    let sender = Sender::new(Rec { log: Vec::new() });
    let addr = Address(sender.clone());
    let mut want: Vec<(u64, usize, usize, u32)> = Vec::new(); // (deadline, origin, request number, payload)
    for (k, (req, dl, origin)) in reqs.iter().enumerate() {
        let t = match dl {
            Dl::Rel(d) => now + d,
            Dl::Abs(t) => *t,
        };
        let r = issue(&sched, &sender, &addr, *req, *dl, *origin, 100 + k as u32);
        if r.is_ok() != (t > now) {
            fails.push(("accepted-iff-future-deadline-and-non-zero-period", "C08", format!("request #{} ({:?}, deadline {}) was {}", k, req, t, if r.is_ok() { "accepted" } else { "rejected" })));
            return fails;
        }
        if r.is_ok() {
            want.push((t, *origin, k, 100 + k as u32));
        }
    }
    want.sort(); // by (deadline, origin), then request order
    // pull everything, deliver it, and compare the order in which the model sees the payloads
    loop {
        burn();
        let e = queue.lock().unwrap().pull();
        match e {
            Some((_, action)) => {
                block_on(action.into_future());
            }
            None => break,
        }
    }
    let got = sender.with(|m| m.log.clone());
    let exp: Vec<u32> = want.iter().map(|w| w.3).collect();
    if got != exp {
        fails.push(("queued-requests-yielded-by-deadline-origin-then-request-order", "C07,C08",
            format!("payloads delivered in queue order: {:?}; expected {:?} (payload 100+k belongs to request #k; keys (deadline, origin): {:?})", got, exp,
                want.iter().map(|w| (w.0, w.1)).collect::<Vec<_>>())));
    }
    fails
}

// ---- the public Scheduler handle: whatever method is used, the origin is the same one (C07: same time, same target
// model, same handle => scheduling order), and validation is that of the request it forwards to (C08)
#[derive(Clone, Copy, Debug, PartialEq)]
enum HReq {
    Schedule,      // Scheduler::schedule(deadline, <action built beforehand>)
    Event,         // Scheduler::schedule_event
    KeyedEvent,    // Scheduler::schedule_keyed_event
    Periodic,      // Scheduler::schedule_periodic_event (period 5: only the first occurrence is looked at)
    KeyedPeriodic, // Scheduler::schedule_keyed_periodic_event
}
fn run_handle(now: u64, reqs: &[(HReq, u64)]) -> Vec<Fail> {
    FUEL.store(0, Ordering::Relaxed);
    let mut fails: Vec<Fail> = Vec::new();
    let queue: Arc<Mutex<SchedulerQueue>> = Arc::new(Mutex::new(PriorityQueue::new()));
    let handle = Scheduler::new(queue.clone(), AtomicTimeReader(Arc::new(AtomicU64::new(now))));
    let sender = Sender::new(Rec { log: Vec::new() });
    let addr = Address(sender.clone());
    let period = Duration::from_secs(5);
    let mut want: Vec<(u64, usize, u32)> = Vec::new(); // (deadline, request number, payload)
    for (k, (req, d)) in reqs.iter().enumerate() {
        let arg = 100 + k as u32;
        let dl = Duration::from_secs(*d);
        let r: Result<(), SchedulingError> = match req {
            HReq::Schedule => {
                let s2 = sender.clone();
                handle.schedule(dl, Action::new(OnceAction::new(process_event(handler, arg, s2))))
            }
            HReq::Event => handle.schedule_event(dl, handler, arg, &addr),
            HReq::KeyedEvent => handle.schedule_keyed_event(dl, handler, arg, &addr).map(|_| ()),
            HReq::Periodic => handle.schedule_periodic_event(dl, period, handler, arg, &addr),
            HReq::KeyedPeriodic => handle.schedule_keyed_periodic_event(dl, period, handler, arg, &addr).map(|_| ()),
        };
        if r.is_ok() != (*d > 0) {
            fails.push(("accepted-iff-future-deadline-and-non-zero-period", "C08", format!("Scheduler request #{} ({:?}, deadline now+{}) was {}", k, req, d, if r.is_ok() { "accepted" } else { "rejected" })));
            return fails;
        }
        if r.is_ok() {
            want.push((now + d, k, arg));
        }
    }
    if handle.time() != MonotonicTime(now) {
        fails.push(("request-does-not-move-the-time", "C08", format!("time is {:?} after the requests", handle.time())));
    }
    want.sort();
    // what a step does with equal keys: it runs them in queue order; different keys of one time are separate tasks, so
    // the requests of ONE handle for one time must all carry the same key
    let mut keys: Vec<((MonotonicTime, usize), u32)> = Vec::new();
    loop {
        burn();
        let e = queue.lock().unwrap().pull();
        match e {
            Some((key, action)) => {
                let before = sender.with(|m| m.log.len());
                block_on(action.into_future());
                let got = sender.with(|m| m.log.get(before).copied());
                keys.push((key, got.unwrap_or(0)));
            }
            None => break,
        }
    }
    let got: Vec<u32> = keys.iter().map(|k| k.1).collect();
    let exp: Vec<u32> = want.iter().map(|w| w.2).collect();
    if got != exp {
        fails.push(("one-handle-one-origin-requests-in-scheduling-order", "C07", format!("payloads in queue order {:?}, expected {:?} (payload 100+k = request #k)", got, exp)));
        return fails;
    }
    for w in keys.windows(2) {
        if w[0].0 .0 == w[1].0 .0 && w[0].0 .1 != w[1].0 .1 {
            fails.push(("one-handle-one-origin-requests-in-scheduling-order", "C07",
                format!("two requests of the same Scheduler handle for the same time and model are queued under different origins ({} and {}): a step runs them as separate tasks, in no particular order", w[0].0 .1, w[1].0 .1)));
            return fails;
        }
    }
    fails
}

fn main() {
    let _thorough = std::env::args().any(|a| a == "--thorough");
    panic::set_hook(Box::new(|_| {}));
    let mut total = 0u64;
    let mut first: BTreeMap<&'static str, (String, String, String)> = BTreeMap::new();
    let mut counts: BTreeMap<&'static str, u64> = BTreeMap::new();
    let mut samples: Vec<String> = Vec::new();
    let reqs = [Req::PrebuiltOnce, Req::PrebuiltKeyedOnce, Req::PrebuiltPeriodic, Req::PrebuiltKeyedPeriodic, Req::Event, Req::KeyedEvent, Req::PeriodicEvent, Req::KeyedPeriodicEvent];
    let variants = [Variant::Deliver, Variant::Spawn, Variant::CancelWhileQueued, Variant::CancelAfterHandOff];
    for now in [0u64, 5] {
        for pre in [false, true] {
            for req in reqs {
                for dl in [Dl::Rel(0), Dl::Rel(1), Dl::Rel(3), Dl::Abs(now.saturating_sub(1)), Dl::Abs(now), Dl::Abs(now + 1), Dl::Abs(now + 4)] {
                    for period in [0u64, 1, 2] {
                        if !req.periodic() && period != 1 {
                            continue;
                        }
                        for origin in [0usize, 7] {
                            for variant in variants {
                                let sc = Sc { now, pre, req, dl, period, origin, variant };
                                total += 1;
                                if total % 397 == 5 && samples.len() < 8 {
                                    samples.push(sc_json(&sc));
                                }
                                let r = panic::catch_unwind(|| run(&sc));
                                let fl = match r {
                                    Ok(x) => x,
                                    Err(_) => vec![("request-panicked-or-did-not-return", "C08", "the request panicked or ran out of fuel".to_string())],
                                };
                                for (check, props, detail) in fl {
                                    *counts.entry(check).or_insert(0) += 1;
                                    first.entry(check).or_insert((props.to_string(), sc_json(&sc), detail));
                                }
                            }
                        }
                    }
                }
            }
        }
    }
    // sequences of two (thorough: three) requests
    let dls = [Dl::Rel(1), Dl::Rel(3), Dl::Abs(6), Dl::Rel(0)];
    let seq_len = if _thorough { 3 } else { 2 };
    let mut idx = vec![0usize; seq_len];
    let opts: Vec<(Req, Dl, usize)> = reqs.iter().flat_map(|r| dls.iter().flat_map(move |d| [0usize, 7].into_iter().map(move |o| (*r, *d, o)))).collect();
    loop {
        let seq: Vec<(Req, Dl, usize)> = idx.iter().map(|i| opts[*i]).collect();
        for now in [0u64, 5] {
            total += 1;
            let r = panic::catch_unwind(|| run_seq(now, &seq));
            let fl = match r {
                Ok(x) => x,
                Err(_) => vec![("request-panicked-or-did-not-return", "C08", "a request of the sequence panicked or ran out of fuel".to_string())],
            };
            for (check, props, detail) in fl {
                *counts.entry(check).or_insert(0) += 1;
                first.entry(check).or_insert((props.to_string(), format!("{{\"now\":{},\"requests\":\"{:?}\"}}", now, seq), detail));
            }
        }
        let mut i = 0;
        while i < seq_len {
            idx[i] += 1;
            if idx[i] < opts.len() {
                break;
            }
            idx[i] = 0;
            i += 1;
        }
        if i == seq_len {
            break;
        }
    }
    // sequences of up to three (thorough: four) requests through the public Scheduler handle
    let hreqs = [HReq::Schedule, HReq::Event, HReq::KeyedEvent, HReq::Periodic, HReq::KeyedPeriodic];
    let hopts: Vec<(HReq, u64)> = hreqs.iter().flat_map(|r| [0u64, 1, 2].into_iter().map(move |d| (*r, d))).collect();
    for hlen in 1..=(if _thorough { 4 } else { 3 }) {
        let mut idx = vec![0usize; hlen];
        loop {
            let seq: Vec<(HReq, u64)> = idx.iter().map(|i| hopts[*i]).collect();
            for now in [0u64, 5] {
                total += 1;
                let r = panic::catch_unwind(|| run_handle(now, &seq));
                let fl = match r {
                    Ok(x) => x,
                    Err(_) => vec![("request-panicked-or-did-not-return", "C08", "a request of the sequence panicked or ran out of fuel".to_string())],
                };
                for (check, props, detail) in fl {
                    *counts.entry(check).or_insert(0) += 1;
                    first.entry(check).or_insert((props.to_string(), format!("{{\"now\":{},\"requests_through_one_Scheduler_handle\":\"{:?}\"}}", now, seq), detail));
                }
            }
            let mut i = 0;
            while i < hlen {
                idx[i] += 1;
                if idx[i] < hopts.len() {
                    break;
                }
                idx[i] = 0;
                i += 1;
            }
            if i == hlen {
                break;
            }
        }
    }
    let fs: Vec<String> = first
        .iter()
        .map(|(k, (props, sc, detail))| format!("{{\"check\":\"{}\",\"props\":\"{}\",\"count\":{},\"scenario\":{},\"detail\":{:?}}}", k, props, counts[k], sc, detail))
        .collect();
    println!("{{\"scenarios\":{},\"samples\":[{}],\"bound\":\"one request per scenario: 8 request forms (Scheduler::schedule with each of the 4 action kinds built beforehand; the 4 schedule_*_event forms) x now in {{0,5}} x empty / one-entry queue x 7 deadlines (relative 0,1,3; absolute now-1, now, now+1, now+4) x periods {{0,1,2}} x 2 origins x 4 follow-ups (deliver, spawn, cancel while queued, cancel after hand-off); then every sequence of two (thorough: three) requests over 8 forms x 4 deadlines x 2 origins, drained and delivered; then every sequence of up to three (thorough: four) requests through the public Scheduler handle over its 5 methods x deadlines now+{{0,1,2}}\",\"failures\":[{}]}}",
        total, samples.join(","), fs.join(","));
}
