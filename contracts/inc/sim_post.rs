// ---------- postcondition predicates of one scheduler step, by property ----------
pub open spec fn q_of(s: Simulation) -> Seq<Entry> { s.scheduler_queue.view() }

// C11: a call on a terminated simulation has no effect on the time and runs no model code
pub open spec fn terminated_noop(pre: Simulation, post: Simulation) -> bool {
    post.time.val() == pre.time.val() && post.executor.run_at() == pre.executor.run_at() && post.is_terminated
}
// C01 / C09: the time moved to the earliest live deadline (<= bound) and exactly the live entries
// due at that time were handed to the executor, in queue order, before Executor::run was entered once
pub open spec fn stepped_exec(pre: Simulation, post: Simulation, bound: u64) -> bool {
    let t = post.time.val();
    let q0 = q_of(pre);
    &&& t > pre.time.val() && t <= bound
    &&& post.executor.runs() == pre.executor.runs() + 1
    &&& exists|tasks: Seq<Seq<int>>| #![trigger flat(tasks)]
            post.executor.spawned() == pre.executor.spawned() + tasks
            && flat(tasks) == live_aids(q0.subrange(0, nle(q0, t) as int))
    &&& exists|n0: int| #![trigger q0[n0]] 0 <= n0 < q0.len() && all_cancelled(q0.subrange(0, n0)) && !q0[n0].cancelled && q0[n0].time == t
}
// C07: one task per (time, origin) group, listing the group's live actions in queue (= scheduling) order
pub open spec fn stepped_groups(pre: Simulation, post: Simulation) -> bool {
    let t = post.time.val();
    let q0 = q_of(pre);
    exists|tasks: Seq<Seq<int>>, g: Groups, n0: int| #![trigger groups_ok(q0.subrange(n0, q0.len() as int), tasks, g, nle(q0, t) - n0)]
        post.executor.spawned() == pre.executor.spawned() + tasks
        && 0 <= n0 <= nle(q0, t) && all_cancelled(q0.subrange(0, n0))
        && groups_ok(q0.subrange(n0, q0.len() as int), tasks, g, nle(q0, t) - n0)
}
// C08 / C09 / C10: queue accounting: no live later entry lost, nothing invented, every executed
// periodic entry has exactly its (t + period) successor queued, cancelled ones have none
pub open spec fn stepped_queue(pre: Simulation, post: Simulation) -> bool {
    let t = post.time.val();
    let q0 = q_of(pre);
    exists|n0: int| #![trigger q0.subrange(n0, q0.len() as int)] 0 <= n0 <= nle(q0, t) && all_cancelled(q0.subrange(0, n0))
        && content_inv(q0.subrange(n0, q0.len() as int), q_of(post), t, nle(q0, t) - n0)
}
// C18: exactly one synchronize(t) for the new time
pub open spec fn stepped_sync(pre: Simulation, post: Simulation) -> bool {
    post.clock.syncs() == pre.clock.syncs().push(post.time.val())
}
// C01: the model code of the step ran exactly once, while the simulation time was the new time (a handler reading the
// time sees its deadline) ...
pub open spec fn ran_at_the_new_time(pre: Simulation, post: Simulation) -> bool {
    let (a, b) = (pre.executor.run_at(), post.executor.run_at());
    b == a.push(b.last()) && b.last().0 == post.time.val()
}
// C18: ... and only after the clock had been synchronised on that time
pub open spec fn ran_after_sync(pre: Simulation, post: Simulation) -> bool {
    let (a, b) = (pre.executor.run_at(), post.executor.run_at());
    b.len() == a.len() + 1 && b.last().1 == post.time.val()
}
// several steps: every new run of the executor happened at a time the clock had just been synchronised on
pub open spec fn runs_consistent(a: Seq<(u64, int)>, b: Seq<(u64, int)>) -> bool {
    a.len() <= b.len()
    && (forall|i: int| 0 <= i < a.len() ==> #[trigger] b[i] == a[i])
    && (forall|i: int| a.len() <= i < b.len() ==> (#[trigger] b[i]).1 == b[i].0)
}
// nothing live is due up to the bound: nothing happens except that cancelled heads are discarded
pub open spec fn idle(pre: Simulation, post: Simulation, bound: u64) -> bool {
    &&& post.time.val() == pre.time.val()
    &&& post.clock.syncs() == pre.clock.syncs()
    &&& post.executor.spawned() == pre.executor.spawned()
    &&& post.executor.run_at() == pre.executor.run_at()
    &&& post.is_terminated == pre.is_terminated
    &&& exists|n: int| peek_rel(q_of(pre), q_of(post), bound, n)
    &&& (q_of(post).len() == 0 || q_of(post)[0].time > bound)
}

// C18 for a stepping call that may pass through several times: every NEW time is synchronised exactly once and the
// times passed to synchronize increase strictly (a jump to the time the simulation already has repeats its sync)
pub open spec fn strictly_increasing(s: Seq<u64>) -> bool {
    forall|i: int, j: int| 0 <= i < j < s.len() ==> #[trigger] s[i] < #[trigger] s[j]
}
pub open spec fn sync_trace_ok(pre: Simulation, post: Simulation, target: u64) -> bool {
    exists|app: Seq<u64>| #![trigger strictly_increasing(app)]
        post.clock.syncs() == pre.clock.syncs() + app && strictly_increasing(app)
        && (target > pre.time.val() ==> forall|i: int| 0 <= i < app.len() ==> #[trigger] app[i] > pre.time.val())
        && (forall|i: int| 0 <= i < app.len() ==> #[trigger] app[i] <= target)
}
