use channel::{ChannelObserver, Receiver, Sender, THREAD_MSG_COUNT};
use model::{Context, Model};
use recycle_box::{coerce_box, RecycleBox};
use std::collections::BTreeMap;
use std::future::Future;
use std::marker::PhantomData;
use std::pin::Pin;
use std::sync::atomic::{AtomicBool, AtomicU64, Ordering};
use std::sync::{Arc, Mutex};
use std::task::{Context as TaskContext, Poll, Wake, Waker};

struct M {
    log: Arc<Mutex<Vec<(u8, u8)>>>,
}
impl Model for M {}

struct Flag(AtomicBool);
impl Wake for Flag {
    fn wake(self: Arc<Self>) {
        self.0.store(true, Ordering::SeqCst);
    }
    fn wake_by_ref(self: &Arc<Self>) {
        self.0.store(true, Ordering::SeqCst);
    }
}

#[derive(Clone, Debug)]
struct Setup {
    capacity: usize,
    msgs: [u8; 2],     // how many messages each of the two senders sends
    cancel: bool,      // the schedule may drop one blocked send future (the sender task ends there)
    drop_receiver: bool, // the schedule may drop the receiver (the mailbox closes)
    gated: bool,       // the handler of sender 0's first message only completes once sender 0's second message was accepted
}

// a gate a handler waits on: opened by a sender task, wakes whoever waits
struct Gate {
    open: AtomicBool,
    waiter: Mutex<Option<Waker>>,
}
impl Gate {
    fn open(&self) {
        self.open.store(true, Ordering::SeqCst);
        if let Some(w) = self.waiter.lock().unwrap().take() {
            w.wake();
        }
    }
}
struct GateFut(Arc<Gate>);
impl Future for GateFut {
    type Output = ();
    fn poll(self: Pin<&mut Self>, cx: &mut TaskContext<'_>) -> Poll<()> {
        if self.0.open.load(Ordering::SeqCst) {
            return Poll::Ready(());
        }
        *self.0.waiter.lock().unwrap() = Some(cx.waker().clone());
        Poll::Pending
    }
}
fn setup_json(s: &Setup, tape: &[(usize, usize)], names: &[String]) -> String {
    format!("{{\"capacity\":{},\"messages_per_sender\":{:?},\"may_drop_a_blocked_send\":{},\"may_drop_the_receiver\":{},\"handler_of_first_message_waits_for_the_senders_second_message_to_be_accepted\":{},\"schedule\":{:?}}}",
        s.capacity, s.msgs, s.cancel, s.drop_receiver, s.gated, names)
}
type Fail = (&'static str, &'static str, String);

type Task = Pin<Box<dyn Future<Output = ()>>>;

// one run under the schedule given by `tape` (choices so far); returns the failure if any, and extends the tape with
// (choice, number of options) for every decision it took beyond the given prefix (choosing option 0)
fn run_one(s: &Setup, tape: &mut Vec<(usize, usize)>, names: &mut Vec<String>) -> Option<Fail> {
    THREAD_MSG_COUNT.set(0);
    let log = Arc::new(Mutex::new(Vec::new()));
    let results: Arc<Mutex<Vec<(u8, u8, bool)>>> = Arc::new(Mutex::new(Vec::new())); // (sender, k, accepted)
    let rx: Receiver<M> = Receiver::new(s.capacity);
    let observer = rx.observer();
    let mut tasks: Vec<Option<Task>> = Vec::new();
    let gate = Arc::new(Gate { open: AtomicBool::new(false), waiter: Mutex::new(None) });
    for i in 0..2u8 {
        let sender: Sender<M> = rx.sender();
        let n = s.msgs[i as usize];
        let results = results.clone();
        let gate = gate.clone();
        let gated = s.gated;
        tasks.push(Some(Box::pin(async move {
            for k in 0..n {
                let hgate = gate.clone();
                let r = sender
                    .send(move |m: &mut M, _cx: &mut Context<M>, rb: RecycleBox<()>| -> RecycleBox<dyn Future<Output = ()> + Send + '_> {
                        m.log.lock().unwrap().push((i, k));
                        if gated && i == 0 && k == 0 {
                            // a handler that is itself waiting for the sender it has to make room for (as in a cycle of
                            // models with saturated mailboxes): the slot is free as soon as the message is taken
                            coerce_box!(RecycleBox::recycle(rb, async move { GateFut(hgate).await }))
                        } else {
                            coerce_box!(RecycleBox::recycle(rb, async {}))
                        }
                    })
                    .await;
                results.lock().unwrap().push((i, k, r.is_ok()));
                if i == 0 && k == 1 {
                    gate.open();
                }
            }
            drop(sender);
        })));
    }
    let received = Arc::new(AtomicU64::new(0));
    {
        let log = log.clone();
        let received = received.clone();
        let mut rx = rx;
        tasks.push(Some(Box::pin(async move {
            let mut model = M { log };
            let mut cx = Context(PhantomData);
            while rx.recv(&mut model, &mut cx).await.is_ok() {
                received.fetch_add(1, Ordering::SeqCst);
            }
        })));
    }
    let flags: Vec<Arc<Flag>> = (0..3).map(|_| Arc::new(Flag(AtomicBool::new(true)))).collect();
    let wakers: Vec<Waker> = flags.iter().map(|f| Waker::from(f.clone())).collect();
    let mut polled_once = [false; 3];
    let mut cancelled: Option<usize> = None;
    let mut receiver_dropped = false;
    let mut pos = 0usize;
    let mut steps = 0;
    loop {
        steps += 1;
        if steps > 200 {
            return Some(("mailbox-schedule-terminates", "C12", "the schedule did not end after 200 decisions".into()));
        }
        // options: poll a woken unfinished task; drop a blocked send future; drop the receiver
        let mut opts: Vec<(u8, usize)> = Vec::new(); // (kind, task)
        for t in 0..3 {
            if tasks[t].is_some() && flags[t].0.load(Ordering::SeqCst) {
                opts.push((0, t));
            }
        }
        if s.cancel && cancelled.is_none() {
            for t in 0..2 {
                if tasks[t].is_some() && polled_once[t] && !flags[t].0.load(Ordering::SeqCst) {
                    opts.push((1, t));
                }
            }
        }
        if s.drop_receiver && !receiver_dropped && tasks[2].is_some() && polled_once[2] {
            opts.push((2, 2));
        }
        let pollable = opts.iter().any(|o| o.0 == 0);
        if !pollable {
            // quiescent: nothing is woken. Every task that is still alive is waiting for something.
            let alive: Vec<usize> = (0..3).filter(|t| tasks[*t].is_some()).collect();
            if !alive.is_empty() {
                let held = observer.len();
                let who: Vec<&str> = alive.iter().map(|t| if *t == 2 { "the receiver" } else if *t == 0 { "sender 0" } else { "sender 1" }).collect();
                return Some(("waiting-tasks-are-resumed", "C12",
                    format!("no task is woken, yet {} still wait(s) ({} message(s) held, capacity {}): a sender waiting for space or the receiver waiting for a message was not resumed although its condition holds, or a closed mailbox left its waiters asleep", who.join(" and "), held, s.capacity)));
            }
            break;
        }
        let choice = if pos < tape.len() { tape[pos].0 } else { tape.push((0, opts.len())); 0 };
        if pos < tape.len() {
            tape[pos].1 = opts.len();
        }
        pos += 1;
        let (kind, t) = opts[choice.min(opts.len() - 1)];
        match kind {
            0 => {
                names.push(format!("poll {}", if t == 2 { "receiver".to_string() } else { format!("sender {}", t) }));
                flags[t].0.store(false, Ordering::SeqCst);
                polled_once[t] = true;
                let mut cx = TaskContext::from_waker(&wakers[t]);
                let done = tasks[t].as_mut().unwrap().as_mut().poll(&mut cx).is_ready();
                if done {
                    tasks[t] = None;
                }
            }
            1 => {
                names.push(format!("drop the blocked send of sender {}", t));
                cancelled = Some(t);
                tasks[t] = None; // drops the pending send future and the Sender handle
            }
            _ => {
                names.push("drop the receiver".to_string());
                receiver_dropped = true;
                tasks[2] = None;
            }
        }
        // between operations: never more than `capacity` messages, and len() is the number held
        let held = observer.len();
        if held > s.capacity {
            return Some(("never-more-than-capacity", "C12", format!("{} messages held in a mailbox of capacity {}", held, s.capacity)));
        }
        let accepted = results.lock().unwrap().iter().filter(|r| r.2).count() as u64;
        let taken = log.lock().unwrap().len() as u64;
        // between polls every successful send has recorded its result and every popped message has run its handler
        if held as u64 != accepted.saturating_sub(taken) || accepted < taken {
            return Some(("length-is-the-number-of-messages-held", "C12,C06", format!("len() reports {} with {} message(s) accepted and {} taken out", held, accepted, taken)));
        }
    }
    // end of the schedule: who got what
    let res = results.lock().unwrap().clone();
    let got = log.lock().unwrap().clone();
    for i in 0..2u8 {
        let mine: Vec<u8> = got.iter().filter(|e| e.0 == i).map(|e| e.1).collect();
        let accepted: Vec<u8> = res.iter().filter(|r| r.0 == i && r.2).map(|r| r.1).collect();
        let sorted_unique = mine.windows(2).all(|w| w[0] < w[1]);
        if !sorted_unique {
            return Some(("each-message-once-in-its-producers-order", "C12", format!("messages of sender {} were processed as {:?}", i, mine)));
        }
        if !receiver_dropped {
            // everything accepted is delivered; a dropped send may or may not have got its message in
            for k in &accepted {
                if !mine.contains(k) {
                    return Some(("accepted-messages-remain-receivable", "C12", format!("message {} of sender {} was accepted but never processed (processed: {:?})", k, i, mine)));
                }
            }
            for k in &mine {
                if !accepted.contains(k) && cancelled != Some(i as usize) {
                    return Some(("each-message-once-in-its-producers-order", "C12", format!("message {} of sender {} was processed although its send did not report success", k, i)));
                }
            }
            if cancelled.is_none() && mine.len() != s.msgs[i as usize] as usize {
                return Some(("each-message-once-in-its-producers-order", "C12", format!("sender {} sent {} message(s), {} were processed", i, s.msgs[i as usize], mine.len())));
            }
        } else {
            // after the receiver is gone sends fail; what was processed before is a prefix of what was accepted
            for r in res.iter().filter(|r| r.0 == i) {
                let _ = r;
            }
        }
    }
    // C06: the in-flight counter is the number of messages accepted and not yet processed - zero when everything was
    // processed, and exactly what is left in the mailbox when the receiver went away
    {
        let accepted = res.iter().filter(|r| r.2).count() as isize;
        let c = THREAD_MSG_COUNT.get();
        if c != accepted - got.len() as isize {
            return Some(("in-flight-counter-is-accepted-minus-processed", "C06",
                format!("{} message(s) were accepted and {} processed, but the in-flight counter is {}", accepted, got.len(), c)));
        }
    }
    None
}
fn main() {
    let thorough = std::env::args().any(|a| a == "--thorough");
    std::panic::set_hook(Box::new(|_| {}));
    let mut total = 0u64;
    let mut first: BTreeMap<&'static str, (String, String, String)> = BTreeMap::new();
    let mut counts: BTreeMap<&'static str, u64> = BTreeMap::new();
    let mut samples: Vec<String> = Vec::new();
    let mut setups: Vec<Setup> = Vec::new();
    let msg_sets: Vec<[u8; 2]> = if thorough { vec![[1, 0], [1, 1], [2, 1], [2, 2], [3, 1], [3, 2], [3, 3]] } else { vec![[1, 0], [1, 1], [2, 1], [2, 2], [3, 1]] };
    for capacity in if thorough { vec![1usize, 2, 3, 4] } else { vec![1usize, 2, 3] } {
        for msgs in &msg_sets {
            for (cancel, drop_receiver) in [(false, false), (true, false), (false, true)] {
                setups.push(Setup { capacity, msgs: *msgs, cancel, drop_receiver, gated: false });
            }

        }
    }
    // a handler that waits for its own sender's next message to be accepted: only that sender sends (another sender could
    // legitimately take the freed slot and the system would deadlock by itself), and nothing is dropped
    for capacity in [1usize, 2] {
        for msgs in [[2u8, 0u8], [3, 0]] {
            setups.push(Setup { capacity, msgs, cancel: false, drop_receiver: false, gated: true });
        }
    }
    let budget: u64 = if thorough { 3_000_000 } else { 400_000 };
    for s in &setups {
        // depth-first enumeration of all schedules of this setup by re-execution
        let mut tape: Vec<(usize, usize)> = Vec::new();
        let mut per_setup = 0u64;
        loop {
            let mut names = Vec::new();
            let mut t2 = tape.clone();
            total += 1;
            per_setup += 1;
            let r = std::panic::catch_unwind(std::panic::AssertUnwindSafe(|| run_one(s, &mut t2, &mut names)));
            let fl = match r {
                Ok(x) => x,
                Err(_) => Some(("mailbox-does-not-panic", "C12", "the mailbox panicked".to_string())),
            };
            if total % 20_011 == 3 && samples.len() < 6 {
                samples.push(setup_json(s, &t2, &names));
            }
            if let Some((check, props, detail)) = fl {
                *counts.entry(check).or_insert(0) += 1;
                first.entry(check).or_insert((props.to_string(), setup_json(s, &t2, &names), detail));
            }
            // next schedule: increment the last decision that still has an untried option
            tape = t2;
            while let Some((c, n)) = tape.pop() {
                if c + 1 < n {
                    tape.push((c + 1, n));
                    break;
                }
            }
            if tape.is_empty() || per_setup >= budget {
                break;
            }
        }
    }
    let fs: Vec<String> = first
        .iter()
        .map(|(k, (props, sc, detail))| format!("{{\"check\":\"{}\",\"props\":\"{}\",\"count\":{},\"scenario\":{},\"detail\":{:?}}}", k, props, counts[k], sc, detail))
        .collect();
    println!("{{\"scenarios\":{},\"samples\":[{}],\"bound\":\"one mailbox of capacity {}, two sender tasks sending up to 3 messages each and the receiver task, on one thread: every cooperative schedule (which woken task is polled next), optionally with one blocked send future dropped or the receiver dropped at any point; at most {} schedules per configuration\",\"failures\":[{}]}}",
        total, samples.join(","), if thorough { "1..4" } else { "1..3" }, budget, fs.join(","));
}
