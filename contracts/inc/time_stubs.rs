// ---------- dependency stub: tai_time::MonotonicTime (total order, exact `+ Duration`) ----------
#[derive(Copy, Clone, PartialEq, Eq, PartialOrd, Ord)]
pub struct MonotonicTime { pub t: u64 }
impl PartialOrdSpecImpl for MonotonicTime {
    open spec fn obeys_partial_cmp_spec() -> bool { true }
    open spec fn partial_cmp_spec(&self, other: &Self) -> Option<Ordering> {
        if self.t < other.t { Some(Ordering::Less) } else if self.t == other.t { Some(Ordering::Equal) } else { Some(Ordering::Greater) }
    }
}
impl PartialEqSpecImpl for MonotonicTime {
    open spec fn obeys_eq_spec() -> bool { true }
    open spec fn eq_spec(&self, other: &Self) -> bool { self.t == other.t }
}
pub uninterp spec fn dur_ns(d: Duration) -> nat;
pub uninterp spec fn time_add(t: MonotonicTime, d: Duration) -> MonotonicTime;
impl vstd::std_specs::ops::AddSpecImpl<Duration> for MonotonicTime {
    open spec fn obeys_add_spec() -> bool { true }
    open spec fn add_req(self, rhs: Duration) -> bool { true }
    open spec fn add_spec(self, rhs: Duration) -> MonotonicTime { time_add(self, rhs) }
}
impl core::ops::Add<Duration> for MonotonicTime {
    type Output = MonotonicTime;
    // assumption: tai_time's addition is exact (overflow panics = divergence)
    #[verifier::external_body]
    fn add(self, d: Duration) -> (r: MonotonicTime)
        ensures r.t as int == self.t as int + dur_ns(d) as int,
    { unimplemented!() }
}
impl MonotonicTime {
    pub const MAX: MonotonicTime = MonotonicTime { t: u64::MAX };
    pub const EPOCH: MonotonicTime = MonotonicTime { t: 0 };
    // assumption: tai_time's checked addition is the exact addition when representable
    #[verifier::external_body]
    pub fn checked_add(self, d: Duration) -> (r: Option<MonotonicTime>)
        ensures
            self.t as int + dur_ns(d) as int <= u64::MAX as int ==> (r matches Some(x) && x.t as int == self.t as int + dur_ns(d) as int),
            self.t as int + dur_ns(d) as int > u64::MAX as int ==> r is None,
    { unimplemented!() }
}

#[verifier::external_body]
fn dur_gt(a: &Duration, b: &Duration) -> (r: bool) ensures r == (dur_ns(*a) > dur_ns(*b)) { a > b }

// time::Deadline: `Duration` means now + d, `MonotonicTime` means itself (proved in unit sched)
pub trait Deadline: Sized {
    spec fn into_time_spec(self, now: MonotonicTime) -> MonotonicTime;
    fn into_time(self, now: MonotonicTime) -> (r: MonotonicTime)
        ensures r == self.into_time_spec(now);      //@ C08,C01 #deadline-resolved-against-the-current-time
}

