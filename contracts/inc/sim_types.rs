//@item src=nexosim/src/simulation.rs kind=struct name=Simulation rules=PUBSTRUCT,QUEUEFIELD,CLOCKFIELD,OBSFIELD,PUBFIELDS
pub struct Simulation {
    pub executor: Executor,
    pub scheduler_queue: SchedulerQueue,
    pub time: AtomicTime,
    pub clock: ClockBox,
    pub clock_tolerance: Option<Duration>,
    pub timeout: Duration,
    pub observers: Vec<(String, ObserverBox)>,
    pub model_names: Vec<String>,
    pub is_terminated: bool,
}
//@end

//@item src=nexosim/src/simulation.rs kind=struct name=DeadlockInfo rules=PUBSTRUCT
pub struct DeadlockInfo {
    pub model: String,
    pub mailbox_size: usize,
}
//@end

//@item src=nexosim/src/simulation.rs kind=enum name=ExecutionError rules=PAYLOAD
pub enum ExecutionError {
    Terminated,
    Deadlock(Vec<DeadlockInfo>),
    MessageLoss(usize),
    NoRecipient {
        model: Option<String>,
    },
    Panic {
        model: String,
        payload: Payload,
    },
    Timeout,
    OutOfSync(Duration),
    BadQuery,
    InvalidDeadline(MonotonicTime),
}
//@end

