//@unit ipq
//@props C20
//@closed src=nexosim/src/util/indexed_priority_queue.rs impl=`impl<K: Copy \+ Ord, V> IndexedPriorityQueue<K, V>`
//@verus --rlimit 100 --triggers-mode silent
// Unit ipq: util/indexed_priority_queue.rs, whole file: IndexedPriorityQueue::{new,with_capacity,len,insert,pull,peek,
// peek_key,extract,sift_up,sift_down}, Node::unwrap_*, InsertKey::{from,into}_raw_parts and all type definitions.
//@rule PUBSTRUCT :: ^(\s*)(?:pub(?:\(crate\))? )?struct :: \1pub struct :: R7
//@rule PUBENUM :: ^(\s*)enum :: \1pub enum :: R7
//@rule PUBCRATE :: pub\(crate\) fn :: pub fn :: R7
//@rule PANICMSG :: panic!\("[^"]*"\) :: vpanic() :: R6 panics are divergence
//@rule ASSERTNE :: assert_ne!\((\w+), (\w+::MAX)\); :: if \1 == \2 { vpanic(); } :: R6
//@pyrule PUBFIELDS :: pub_fields() :: R7
//@pyrule RET :: name_ret(r) :: R17
use vstd::prelude::*;
use vstd::std_specs::cmp::{PartialOrdSpec, PartialOrdSpecImpl};
use core::cmp::Ordering;
use std::mem;
verus! {

#[verifier::external_body]
fn vpanic() -> ! { panic!() }

pub assume_specification<T> [std::mem::replace] (dest: &mut T, src: T) -> (r: T)
    ensures *final(dest) == src, r == *old(dest);

// ---------- order on keys (assumption: K's Ord is a total preorder and its exec impl obeys its spec) ----------
pub open spec fn kcmp<K: PartialOrd>(a: K, b: K) -> Option<Ordering> { PartialOrdSpec::partial_cmp_spec(&a, &b) }
pub open spec fn kle<K: PartialOrd>(a: K, b: K) -> bool { kcmp(a, b) == Some(Ordering::Less) || kcmp(a, b) == Some(Ordering::Equal) }
pub open spec fn total_order<K: PartialOrd>() -> bool {
    &&& K::obeys_partial_cmp_spec()
    &&& forall|a: K, b: K| (#[trigger] kcmp(a, b)).is_some()
    &&& forall|a: K| #[trigger] kcmp(a, a) == Some(Ordering::Equal)
    &&& forall|a: K, b: K| (#[trigger] kcmp(a, b) == Some(Ordering::Less)) == (kcmp(b, a) == Some(Ordering::Greater))
    &&& forall|a: K, b: K| (#[trigger] kcmp(a, b) == Some(Ordering::Equal)) == (kcmp(b, a) == Some(Ordering::Equal))
    &&& forall|a: K, b: K, c: K| #[trigger] kle(a, b) && #[trigger] kle(b, c) ==> kle(a, c)
}

// ---------- generated from the declared field order of `UniqueKey { key, epoch }` ----------
#[derive(Copy, Clone, PartialEq, Eq, PartialOrd, Ord)]
//@item src=nexosim/src/util/indexed_priority_queue.rs kind=struct name=UniqueKey rules=PUBSTRUCT,PUBFIELDS
pub struct UniqueKey<K: Copy + Clone> {
    /// The user-provided key.
    pub key: K,
    /// A unique epoch that indicates the insertion date.
    pub epoch: u64,
}
//@end
//@item src=nexosim/src/util/indexed_priority_queue.rs kind=gen name=UniqueKey gen=derive_partial_ord
impl<K: Copy + Clone + PartialOrd> PartialOrdSpecImpl for UniqueKey<K> {
    open spec fn obeys_partial_cmp_spec() -> bool { K::obeys_partial_cmp_spec() }
    open spec fn partial_cmp_spec(&self, other: &Self) -> Option<Ordering> {
        match PartialOrdSpec::partial_cmp_spec(&self.key, &other.key) {
            Some(Ordering::Equal) => if self.epoch < other.epoch { Some(Ordering::Less) } else if self.epoch == other.epoch { Some(Ordering::Equal) } else { Some(Ordering::Greater) },
            o => o,
        }
    }
}
//@end
pub open spec fn ule<K: Copy + PartialOrd>(a: UniqueKey<K>, b: UniqueKey<K>) -> bool {
    kcmp(a.key, b.key) == Some(Ordering::Less) || (kcmp(a.key, b.key) == Some(Ordering::Equal) && a.epoch <= b.epoch)
}
pub open spec fn ult<K: Copy + PartialOrd>(a: UniqueKey<K>, b: UniqueKey<K>) -> bool {
    kcmp(a.key, b.key) == Some(Ordering::Less) || (kcmp(a.key, b.key) == Some(Ordering::Equal) && a.epoch < b.epoch)
}
pub proof fn lemma_ule_trans<K: Copy + PartialOrd>(a: UniqueKey<K>, b: UniqueKey<K>, c: UniqueKey<K>)
    requires total_order::<K>(), ule(a, b), ule(b, c)
    ensures ule(a, c)
{
    assert(kle(a.key, b.key) && kle(b.key, c.key));
    assert(kle(a.key, c.key));
    if kcmp(a.key, c.key) == Some(Ordering::Equal) {
        // then all three are order-equal
        assert(kcmp(c.key, a.key) == Some(Ordering::Equal));
        assert(kle(c.key, a.key));
        assert(kle(c.key, b.key));   // c<=a<=b
        assert(kle(b.key, a.key));   // b<=c<=a
        if kcmp(a.key, b.key) == Some(Ordering::Less) { assert(kcmp(b.key, a.key) == Some(Ordering::Greater)); assert(false); }
        if kcmp(b.key, c.key) == Some(Ordering::Less) { assert(kcmp(c.key, b.key) == Some(Ordering::Greater)); assert(false); }
    }
}
pub proof fn lemma_ule_total<K: Copy + PartialOrd>(a: UniqueKey<K>, b: UniqueKey<K>)
    requires total_order::<K>()
    ensures ule(a, b) || ult(b, a), !(ule(a, b) && ult(b, a)), ult(a, b) ==> ule(a, b),
{
    assert(kcmp(a.key, b.key).is_some());
    assert(kcmp(b.key, a.key).is_some());
    match kcmp(a.key, b.key) {
        Some(Ordering::Less) => {},
        Some(Ordering::Equal) => {},
        Some(Ordering::Greater) => {},
        None => {},
    }
    assert((kcmp(a.key, b.key) == Some(Ordering::Less)) == (kcmp(b.key, a.key) == Some(Ordering::Greater)));
    assert((kcmp(b.key, a.key) == Some(Ordering::Less)) == (kcmp(a.key, b.key) == Some(Ordering::Greater)));
    assert((kcmp(a.key, b.key) == Some(Ordering::Equal)) == (kcmp(b.key, a.key) == Some(Ordering::Equal)));
}

fn t_ge<K: Copy + Ord>(a: &UniqueKey<K>, b: &UniqueKey<K>) -> (r: bool)
    requires total_order::<K>()
    ensures r == ule(*b, *a)
{
    proof { lemma_ule_total(*b, *a); lemma_ule_total(*a, *b); }
    a >= b
}
fn t_lt<K: Copy + Ord>(a: UniqueKey<K>, b: UniqueKey<K>) -> (r: bool)
    requires total_order::<K>()
    ensures r == ult(a, b)
{
    proof { lemma_ule_total(b, a); lemma_ule_total(a, b); }
    a < b
}
//@item src=nexosim/src/util/indexed_priority_queue.rs kind=struct name=IndexedPriorityQueue rules=PUBSTRUCT,PUBFIELDS
pub struct IndexedPriorityQueue<K, V>
where
    K: Copy + Clone + Ord,
{
    pub heap: Vec<Item<K>>,
    pub slab: Vec<Node<V>>,
    pub first_free_node: Option<usize>,
    pub next_epoch: u64,
}
//@end

impl<K: Copy + Ord, V> IndexedPriorityQueue<K, V> {
//@item src=nexosim/src/util/indexed_priority_queue.rs kind=fn name=new within=`impl<K: Copy \+ Ord, V> IndexedPriorityQueue<K, V>` rules=PUBCRATE,RET
    pub fn new() -> (r: Self)
        ensures r.wf(), forall|s: int| !r.dom(s)   //@
    {
        Self {
            heap: Vec::new(),
            slab: Vec::new(),
            first_free_node: None,
            next_epoch: 0,
        }
    }
//@end
//@item src=nexosim/src/util/indexed_priority_queue.rs kind=fn name=with_capacity within=`impl<K: Copy \+ Ord, V> IndexedPriorityQueue<K, V>` rules=PUBCRATE,RET
    pub fn with_capacity(capacity: usize) -> (r: Self)
        ensures r.wf(), forall|s: int| !r.dom(s)   //@
    {
        Self {
            heap: Vec::with_capacity(capacity),
            slab: Vec::with_capacity(capacity),
            first_free_node: None,
            next_epoch: 0,
        }
    }
//@end
//@item src=nexosim/src/util/indexed_priority_queue.rs kind=fn name=len within=`impl<K: Copy \+ Ord, V> IndexedPriorityQueue<K, V>` rules=PUBCRATE,RET
    pub fn len(&self) -> (r: usize)
        ensures r == self.heap@.len()   //@
    {
        self.heap.len()
    }
//@end
//@item src=nexosim/src/util/indexed_priority_queue.rs kind=fn name=insert within=`impl<K: Copy \+ Ord, V> IndexedPriorityQueue<K, V>` rules=PUBCRATE,ASSERTNE,RET
    pub fn insert(&mut self, key: K, value: V) -> (r: InsertKey)
        //@[
        requires
            total_order::<K>(), old(self).wf(),
            old(self).heap@.len() + 1 < usize::MAX / 2 - 1,
        ensures
            final(self).wf(),
            r.epoch == old(self).next_epoch, final(self).next_epoch == old(self).next_epoch + 1,
            !old(self).dom(r.slab_idx as int),
            final(self).view_eq_except(old(self), r.slab_idx as int),
            final(self).dom(r.slab_idx as int),
            final(self).entry(r.slab_idx as int) == (UniqueKey { key, epoch: r.epoch }, value),
        //@]
    {
        // Build a unique key from the user-provided key and a unique epoch.
        let epoch = self.next_epoch;
        if epoch == u64::MAX { vpanic(); }
        self.next_epoch += 1;
        let unique_key = UniqueKey { key, epoch };

        // Add a new node to the slab, either by re-using a free node or by
        // appending a new one.
        let slab_idx = match self.first_free_node {
            Some(idx) => {
                self.first_free_node = self.slab[idx].unwrap_next_free_node();

                self.slab[idx] = Node::HeapNode(HeapNode {
                    value,
                    heap_idx: 0, // temporary value overridden in `sift_up`
                });

                idx
            }
            None => {
                let idx = self.slab.len();
                self.slab.push(Node::HeapNode(HeapNode {
                    value,
                    heap_idx: 0, // temporary value overridden in `sift_up`
                }));

                idx
            }
        };

        //@[
        proof {
            assert(self.free_ok()) by {
                assert forall|s: int| 0 <= s < self.slab@.len() && !(#[trigger] self.slab@[s]).is_heap() implies
                    (self.slab@[s]->FreeNode_0.next matches Some(n) ==> n < self.slab@.len()) by {
                    if s < old(self).slab@.len() && s != slab_idx { assert(self.slab@[s] == old(self).slab@[s]); }
                }
            }
        }
        //@]
        // Add a new node at the bottom of the heap.
        let heap_idx = self.heap.len();
        self.heap.push(Item {
            key: unique_key, // temporary value overridden in `sift_up`
            slab_idx: 0,     // temporary value overridden in `sift_up`
        });

        //@[
        let ghost mid = *self;
        let ghost item_g = Item { key: unique_key, slab_idx };
        proof {
            Self::lemma_insert_ready(old(self), &mid, item_g, Item { key: unique_key, slab_idx: 0 });
        }
        //@]
        // Sift up the new node.
        self.sift_up(
            Item {
                key: unique_key,
                slab_idx,
            },
            heap_idx,
        );

        //@[
        proof {
            Self::lemma_insert_done(old(self), &mid, self, item_g, value);
        }
        //@]
        InsertKey { slab_idx, epoch }
    }
//@end
//@item src=nexosim/src/util/indexed_priority_queue.rs kind=fn name=pull within=`impl<K: Copy \+ Ord, V> IndexedPriorityQueue<K, V>` rules=PUBCRATE,RET
    pub fn pull(&mut self) -> (r: Option<(K, V)>)
        //@[
        requires total_order::<K>(), old(self).wf(),
        ensures
            final(self).wf(),
            // epochs are never reused: the counter only moves forward, and only in insert              (C20 non-aliasing keys)
            final(self).next_epoch == old(self).next_epoch,                                           //@ #epochs-never-reused
            old(self).heap@.len() == 0 ==> r is None && (forall|s: int| !old(self).dom(s)) && final(self).view_eq_except(old(self), -1),
            old(self).heap@.len() > 0 ==> r is Some && (exists|s: int| #![trigger old(self).is_min(s)] old(self).is_min(s)
                    && old(self).entry(s) == (old(self).key_of(s), r.unwrap().1) && old(self).key_of(s).key == r.unwrap().0
                    && final(self).view_eq_except(old(self), s) && !final(self).dom(s)),
        //@]
    {
        //@[
        proof {
            if self.heap@.len() > 0 { self.lemma_top_is_min(); }
            else {
                assert forall|s: int| !self.dom(s) by { }
            }
        }
        //@]
        let item = self.heap.first()?;
        let top_slab_idx = item.slab_idx;
        let key = item.key.key;

        // Free the top node, extracting its value.
        let value = mem::replace(
            &mut self.slab[top_slab_idx],
            Node::FreeNode(FreeNode {
                next: self.first_free_node,
            }),
        )
        .unwrap_value();

        self.first_free_node = Some(top_slab_idx);

        // Sift the last node at the bottom of the heap from the top of the heap.
        let last_item = self.heap.pop().unwrap();
        //@[
        let ghost mid = *self;
        proof {
            assert(Self::removed(old(self), &mid, top_slab_idx as int));
            if last_item.slab_idx != top_slab_idx {
                Self::lemma_remove_ready(old(self), &mid, top_slab_idx as int, last_item);
            } else {
                Self::lemma_remove_last(old(self), &mid, top_slab_idx as int);
            }
        }
        //@]
        if last_item.slab_idx != top_slab_idx {
            self.sift_down(last_item, 0);
        }

        //@[
        proof {
            if last_item.slab_idx != top_slab_idx {
                Self::lemma_remove_done(old(self), &mid, self, top_slab_idx as int, last_item);
                self.lemma_placed_epoch(&mid, last_item);
            }
        }
        //@]
        Some((key, value))
    }
//@end
//@item src=nexosim/src/util/indexed_priority_queue.rs kind=fn name=peek within=`impl<K: Copy \+ Ord, V> IndexedPriorityQueue<K, V>` rules=PUBCRATE,RET
    pub fn peek(&self) -> (r: Option<(&K, &V)>)
        //@[
        requires total_order::<K>(), self.wf(),
        ensures
            self.heap@.len() == 0 ==> r is None,
            self.heap@.len() > 0 ==> r is Some && (exists|s: int| self.is_min(s) && #[trigger] self.entry(s) == (self.key_of(s), *r.unwrap().1) && self.key_of(s).key == *r.unwrap().0),
        //@]
    {
        proof { if self.heap@.len() > 0 { self.lemma_top_is_min(); } }   //@
        let item = self.heap.first()?;
        let top_slab_idx = item.slab_idx;
        let key = &item.key.key;
        let value = self.slab[top_slab_idx].unwrap_value_ref();

        //@[
        proof {
            let s0 = top_slab_idx as int;
            assert(self.is_min(s0));
            assert(self.entry(s0) == (self.key_of(s0), *value));
            assert(self.key_of(s0).key == *key);
        }
        //@]
        Some((key, value))
    }
//@end
//@item src=nexosim/src/util/indexed_priority_queue.rs kind=fn name=peek_key within=`impl<K: Copy \+ Ord, V> IndexedPriorityQueue<K, V>` rules=PUBCRATE,RET
    pub fn peek_key(&self) -> (r: Option<&K>)
        //@[
        requires total_order::<K>(), self.wf(),
        ensures
            self.heap@.len() == 0 ==> r is None,
            self.heap@.len() > 0 ==> r is Some && (exists|s: int| self.is_min(s) && #[trigger] self.key_of(s).key == *r.unwrap()),
        //@]
    {
        proof { if self.heap@.len() > 0 { self.lemma_top_is_min(); } }   //@
        let item = self.heap.first()?;

        Some(&item.key.key)
    }
//@end
//@item src=nexosim/src/util/indexed_priority_queue.rs kind=fn name=extract within=`impl<K: Copy \+ Ord, V> IndexedPriorityQueue<K, V>` rules=PUBCRATE,RET
    pub fn extract(&mut self, insert_key: InsertKey) -> (r: Option<(K, V)>)
        //@[
        requires total_order::<K>(), old(self).wf(),
        ensures
            final(self).wf(),
            // epochs are never reused: a key extracted once can never match a later entry           (C20 non-aliasing keys)
            final(self).next_epoch == old(self).next_epoch,                                           //@ #epochs-never-reused
            ({ let s = insert_key.slab_idx as int;
               let valid = old(self).dom(s) && old(self).key_of(s).epoch == insert_key.epoch;
               &&& (valid ==> r == Some((old(self).key_of(s).key, old(self).slab@[s].val()))
                        && final(self).view_eq_except(old(self), s) && !final(self).dom(s))
               &&& (!valid ==> r is None && final(self).view_eq_except(old(self), -1)) }),
        //@]
    {
        let slab_idx = insert_key.slab_idx;

        // Check that (i) there is a node at this index, (ii) this node is in
        // the heap and (iii) this node has the correct epoch.
        match self.slab.get(slab_idx) {
            None | Some(Node::FreeNode(_)) => return None,
            Some(Node::HeapNode(node)) => {
                if self.heap[node.heap_idx].key.epoch != insert_key.epoch {
                    return None;
                }
            }
        };

        //@[
        proof {
            assert(old(self).dom(slab_idx as int));
            assert(old(self).key_of(slab_idx as int).epoch == insert_key.epoch);
        }
        //@]
        // Free the node, extracting its content.
        let node = mem::replace(
            &mut self.slab[slab_idx],
            Node::FreeNode(FreeNode {
                next: self.first_free_node,
            }),
        )
        .unwrap_heap_node();

        self.first_free_node = Some(slab_idx);

        // Save the key before the node is removed from the heap.
        let key = self.heap[node.heap_idx].key.key;

        // If the last item of the heap is not the one to be deleted, sift it up
        // or down as appropriate starting from the vacant spot.
        let last_item = self.heap.pop().unwrap();
        //@[
        let ghost mid = *self;
        proof {
            assert(node.heap_idx == old(self).slab@[slab_idx as int].hidx());
            assert(old(self).heap@[node.heap_idx as int].slab_idx == slab_idx);
            assert(Self::removed(old(self), &mid, slab_idx as int));
            if last_item.slab_idx != slab_idx {
                Self::lemma_remove_ready(old(self), &mid, slab_idx as int, last_item);
                lemma_ule_total(last_item.key, old(self).heap@[node.heap_idx as int].key);
            } else {
                Self::lemma_remove_last(old(self), &mid, slab_idx as int);
                assert(node.heap_idx == old(self).heap@.len() - 1) by {
                    assert(old(self).heap@[old(self).heap@.len() - 1].slab_idx == slab_idx);
                }
            }
        }
        //@]
        if let Some(item) = self.heap.get(node.heap_idx) {
            if last_item.key < item.key {
                self.sift_up(last_item, node.heap_idx);
            } else {
                self.sift_down(last_item, node.heap_idx);
            }
        }

        //@[
        proof {
            if last_item.slab_idx != slab_idx {
                Self::lemma_remove_done(old(self), &mid, self, slab_idx as int, last_item);
                self.lemma_placed_epoch(&mid, last_item);
            }
        }
        //@]
        Some((key, node.value))
    }
//@end
    #[inline]
//@item src=nexosim/src/util/indexed_priority_queue.rs kind=fn name=sift_up within=`impl<K: Copy \+ Ord, V> IndexedPriorityQueue<K, V>`
    fn sift_up(&mut self, item: Item<K>, heap_idx: usize)
        //@[
        requires
            total_order::<K>(),
            old(self).hole_inv(old(self), item, heap_idx as int),
            old(self).le_children(item.key, heap_idx as int),
            old(self).bridge(heap_idx as int),
        ensures
            final(self).placed(old(self), item),
        //@]
    {
        let mut child_heap_idx = heap_idx;
        let key = &item.key;

        while child_heap_idx != 0
            //@[
            invariant
                total_order::<K>(),
                key == &item.key,
                self.hole_inv(old(self), item, child_heap_idx as int),
                self.le_children(item.key, child_heap_idx as int),
                self.bridge(child_heap_idx as int),
            ensures
                self.parent_le(item.key, child_heap_idx as int),
            decreases child_heap_idx,
            //@]
        {
            //@[
            proof { self.lemma_hole_bounds(old(self), item, child_heap_idx as int); }
            let ghost pre = *self;
            //@]
            let parent_heap_idx = (child_heap_idx - 1) / 2;

            // Stop when the key is larger or equal to the parent's.
            if key >= &self.heap[parent_heap_idx].key {
                break;
            }

            //@[
            proof {
                lemma_ule_total(item.key, self.heap@[parent_heap_idx as int].key);
                lemma_ule_total(self.heap@[parent_heap_idx as int].key, item.key);
            }
            //@]
            // Move the parent down one level.
            self.heap[child_heap_idx] = self.heap[parent_heap_idx];
            let parent_slab_idx = self.heap[parent_heap_idx].slab_idx;
            *self.slab[parent_slab_idx].unwrap_heap_index_mut() = child_heap_idx;

            //@[
            proof {
                Self::lemma_sift_up_step(&pre, self, old(self), item, child_heap_idx as int);
                lemma_ule_total(item.key, self.heap@[parent_heap_idx as int].key);
                lemma_ule_total(self.heap@[parent_heap_idx as int].key, item.key);
            }
            //@]
            // Stop when the key is larger or equal to the parent's.
            if key >= &self.heap[parent_heap_idx].key {
                break;
            }
            // Make the former parent the new child.
            child_heap_idx = parent_heap_idx;
        }

        //@[
        proof { self.lemma_hole_bounds(old(self), item, child_heap_idx as int); }
        let ghost pre = *self;
        //@]
        // Move the original item to the current child.
        self.heap[child_heap_idx] = item;
        *self.slab[item.slab_idx].unwrap_heap_index_mut() = child_heap_idx;
        proof { Self::lemma_place(&pre, self, old(self), item, child_heap_idx as int); }   //@
    }
//@end
    #[inline]
//@item src=nexosim/src/util/indexed_priority_queue.rs kind=fn name=sift_down within=`impl<K: Copy \+ Ord, V> IndexedPriorityQueue<K, V>`
    fn sift_down(&mut self, item: Item<K>, heap_idx: usize)
        //@[
        requires
            total_order::<K>(),
            old(self).heap@.len() < usize::MAX / 2,
            old(self).hole_inv(old(self), item, heap_idx as int),
            old(self).parent_le(item.key, heap_idx as int),
            old(self).bridge(heap_idx as int),
        ensures
            final(self).placed(old(self), item),
        //@]
    {
        proof { self.lemma_hole_bounds(old(self), item, heap_idx as int); }   //@
        let mut parent_heap_idx = heap_idx;
        let mut child_heap_idx = 2 * parent_heap_idx + 1;
        let key = &item.key;

        while child_heap_idx < self.heap.len()
            //@[
            invariant_except_break
                child_heap_idx == 2 * parent_heap_idx + 1,
            invariant
                total_order::<K>(),
                key == &item.key,
                self.heap@.len() < usize::MAX / 2,
                self.hole_inv(old(self), item, parent_heap_idx as int),
                self.parent_le(item.key, parent_heap_idx as int),
                self.bridge(parent_heap_idx as int),
            ensures
                self.le_children(item.key, parent_heap_idx as int),
            decreases self.heap@.len() - parent_heap_idx,
            //@]
        {
            //@[
            let ghost c0 = child_heap_idx as int;
            proof { self.lemma_hole_bounds(old(self), item, parent_heap_idx as int); }
            //@]
            // If the sibling exists and has a smaller key, make it the
            // candidate for swapping.
            if let Some(other_child) = self.heap.get(child_heap_idx + 1) {
                child_heap_idx += (self.heap[child_heap_idx].key > other_child.key) as usize;
            }

            //@[
            proof {
                let c = child_heap_idx as int;
                let len = self.heap@.len() as int;
                if c0 + 1 < len {
                    lemma_ule_total(self.heap@[c0].key, self.heap@[c0 + 1].key);
                    lemma_ule_total(self.heap@[c0 + 1].key, self.heap@[c0].key);
                }
                lemma_ule_total(self.heap@[c].key, self.heap@[c].key);
                assert(self.le_children(self.heap@[c].key, parent_heap_idx as int));
                lemma_ule_total(item.key, self.heap@[c].key);
                lemma_ule_total(self.heap@[c].key, item.key);
            }
            //@]
            // Stop when the key is smaller or equal to the child with the smallest key.
            if key <= &self.heap[child_heap_idx].key {
                //@[
                proof {
                    let h = parent_heap_idx as int;
                    let c = child_heap_idx as int;
                    assert forall|cc: int| Self::is_child(cc, h) && cc < self.heap@.len() implies ule(item.key, (#[trigger] self.heap@[cc]).key) by {
                        lemma_ule_trans(item.key, self.heap@[c].key, self.heap@[cc].key);
                    }
                }
                //@]
                break;
            }

            let ghost pre = *self;   //@
            // Move the child up one level.
            self.heap[parent_heap_idx] = self.heap[child_heap_idx];
            let child_slab_idx = self.heap[child_heap_idx].slab_idx;
            *self.slab[child_slab_idx].unwrap_heap_index_mut() = parent_heap_idx;

            proof { Self::lemma_sift_down_step(&pre, self, old(self), item, parent_heap_idx as int, child_heap_idx as int); }   //@
            // Make the child the new parent.
            parent_heap_idx = child_heap_idx;
            child_heap_idx = 2 * parent_heap_idx + 1;
        }

        //@[
        proof { self.lemma_hole_bounds(old(self), item, parent_heap_idx as int); }
        let ghost pre = *self;
        //@]
        // Move the original item to the current parent.
        self.heap[parent_heap_idx] = item;
        *self.slab[item.slab_idx].unwrap_heap_index_mut() = parent_heap_idx;
        proof { Self::lemma_place(&pre, self, old(self), item, parent_heap_idx as int); }   //@
    }
//@end
}

impl<K: Copy + Ord, V> Default for IndexedPriorityQueue<K, V> {
    fn default() -> Self {
        Self::new()
    }
}
#[derive(Copy, Clone)]
//@item src=nexosim/src/util/indexed_priority_queue.rs kind=struct name=Item rules=PUBSTRUCT,PUBFIELDS
pub struct Item<K: Copy> {
    // A unique key by which the heap is sorted.
    pub key: UniqueKey<K>,
    // An index pointing to the corresponding node in the slab.
    pub slab_idx: usize,
}
//@end
//@item src=nexosim/src/util/indexed_priority_queue.rs kind=enum name=Node rules=PUBENUM
pub enum Node<V> {
    FreeNode(FreeNode),
    HeapNode(HeapNode<V>),
}
//@end

impl<V> Node<V> {
//@item src=nexosim/src/util/indexed_priority_queue.rs kind=fn name=unwrap_next_free_node within=`impl<V> Node<V>` rules=PANICMSG,RET
    fn unwrap_next_free_node(&self) -> (r: Option<usize>)
        ensures !self.is_heap() && r == self->FreeNode_0.next   //@
    {
        match self {
            Self::FreeNode(n) => n.next,
            _ => vpanic(),
        }
    }
//@end
//@item src=nexosim/src/util/indexed_priority_queue.rs kind=fn name=unwrap_heap_node within=`impl<V> Node<V>` rules=PANICMSG,RET
    fn unwrap_heap_node(self) -> (r: HeapNode<V>)
        ensures self.is_heap() && r == self->HeapNode_0   //@
    {
        match self {
            Self::HeapNode(n) => n,
            _ => vpanic(),
        }
    }
//@end
//@item src=nexosim/src/util/indexed_priority_queue.rs kind=fn name=unwrap_value within=`impl<V> Node<V>` rules=PANICMSG,RET
    fn unwrap_value(self) -> (r: V)
        ensures self.is_heap() && r == self.val()   //@
    {
        match self {
            Self::HeapNode(n) => n.value,
            _ => vpanic(),
        }
    }
//@end
//@item src=nexosim/src/util/indexed_priority_queue.rs kind=fn name=unwrap_value_ref within=`impl<V> Node<V>` rules=PANICMSG,RET
    fn unwrap_value_ref(&self) -> (r: &V)
        ensures self.is_heap() && *r == self.val()   //@
    {
        match self {
            Self::HeapNode(n) => &n.value,
            _ => vpanic(),
        }
    }
//@end
//@item src=nexosim/src/util/indexed_priority_queue.rs kind=fn name=unwrap_heap_index_mut within=`impl<V> Node<V>` rules=PANICMSG,RET
    fn unwrap_heap_index_mut(&mut self) -> (r: &mut usize)
        //@[
        ensures old(self).is_heap() && *r == old(self).hidx()
            && final(self).is_heap() && final(self).val() == old(self).val() && final(self).hidx() == *final(r)
        //@]
    {
        match self {
            Self::HeapNode(n) => &mut n.heap_idx,
            _ => vpanic(),
        }
    }
//@end
}
//@item src=nexosim/src/util/indexed_priority_queue.rs kind=struct name=FreeNode rules=PUBSTRUCT,PUBFIELDS
pub struct FreeNode {
    // An index pointing to the next free node, if any.
    pub next: Option<usize>,
}
//@end
//@item src=nexosim/src/util/indexed_priority_queue.rs kind=struct name=HeapNode rules=PUBSTRUCT,PUBFIELDS
pub struct HeapNode<V> {
    // The value associated to this node.
    pub value: V,
    // Index of the node in the heap.
    pub heap_idx: usize,
}
//@end
#[derive(Copy, Clone, Debug, Hash, PartialEq, Eq)]
//@item src=nexosim/src/util/indexed_priority_queue.rs kind=struct name=InsertKey rules=PUBSTRUCT,PUBFIELDS
pub struct InsertKey {
    // An index pointing to a node in the slab.
    pub slab_idx: usize,
    // The epoch when the node was inserted.
    pub epoch: u64,
}
//@end

impl InsertKey {
    // Creates an `InsertKey` directly from its raw components.
    //
    // This method is safe: the worse than can happen is for the key to be
    // invalid, in which case it will simply be rejected by
    // `IndexedPriorityQueue::extract`.
//@item src=nexosim/src/util/indexed_priority_queue.rs kind=fn name=from_raw_parts within=`impl InsertKey` rules=PUBCRATE
    pub fn from_raw_parts(slab_idx: usize, epoch: u64) -> Self {
        Self { slab_idx, epoch }
    }
//@end

    // Decomposes an `InsertKey` into its raw components.
//@item src=nexosim/src/util/indexed_priority_queue.rs kind=fn name=into_raw_parts within=`impl InsertKey` rules=PUBCRATE
    pub fn into_raw_parts(self) -> (usize, u64) {
        (self.slab_idx, self.epoch)
    }
//@end
}


// ---------- representation invariant and abstract view ----------
pub open spec fn parent(i: int) -> int { (i - 1) / 2 }

impl<V> Node<V> {
    pub open spec fn is_heap(&self) -> bool { self is HeapNode }
    pub open spec fn hidx(&self) -> usize { self->HeapNode_0.heap_idx }
    pub open spec fn val(&self) -> V { self->HeapNode_0.value }
}

impl<K: Copy + Ord, V> IndexedPriorityQueue<K, V> {
    /// every heap position except `hole` points to a slab heap-node that points back
    pub open spec fn xidx_ok(&self, hole: int) -> bool {
        forall|i: int| 0 <= i < self.heap@.len() && i != hole ==>
            (#[trigger] self.heap@[i]).slab_idx < self.slab@.len()
            && self.slab@[self.heap@[i].slab_idx as int].is_heap()
            && self.slab@[self.heap@[i].slab_idx as int].hidx() == i
    }
    /// every slab heap-node except `skip` points to a heap position (not the hole) that points back
    pub open spec fn slab_ok(&self, skip: int, hole: int) -> bool {
        forall|s: int| 0 <= s < self.slab@.len() && s != skip && (#[trigger] self.slab@[s]).is_heap() ==>
            self.slab@[s].hidx() < self.heap@.len() && self.slab@[s].hidx() != hole
            && self.heap@[self.slab@[s].hidx() as int].slab_idx == s
    }
    pub open spec fn order_ok(&self, hole: int) -> bool {
        forall|i: int| 1 <= i < self.heap@.len() && i != hole && parent(i) != hole ==>
            ule(self.heap@[parent(i)].key, (#[trigger] self.heap@[i]).key)
    }
    pub open spec fn free_ok(&self) -> bool {
        &&& (self.first_free_node matches Some(f) ==> f < self.slab@.len())
        &&& forall|s: int| 0 <= s < self.slab@.len() && !(#[trigger] self.slab@[s]).is_heap() ==>
                (self.slab@[s]->FreeNode_0.next matches Some(n) ==> n < self.slab@.len())
    }
    /// unique key attached to slab index `s` (meaningful when slab[s] is a heap node)
    pub open spec fn key_of(&self, s: int) -> UniqueKey<K> { self.heap@[self.slab@[s].hidx() as int].key }

    /// all slab entries other than `skip` keep their kind, value and key between `old` and `self`
    pub open spec fn same_entries(&self, old: &Self, skip: int) -> bool {
        &&& self.slab@.len() == old.slab@.len()
        &&& forall|s: int| 0 <= s < old.slab@.len() && s != skip ==>
                ((#[trigger] old.slab@[s]).is_heap() ==> self.slab@[s].is_heap() && self.slab@[s].val() == old.slab@[s].val() && self.key_of(s) == old.key_of(s))
                && (!old.slab@[s].is_heap() ==> self.slab@[s] == old.slab@[s])
    }
}

impl<K: Copy + Ord, V> IndexedPriorityQueue<K, V> {
    pub open spec fn is_child(c: int, h: int) -> bool { c == 2 * h + 1 || c == 2 * h + 2 }

    /// state while an item is "in flight" with a hole at heap position `h`
    #[verifier::opaque]
    pub open spec fn hole_inv(&self, old: &Self, item: Item<K>, h: int) -> bool {
        &&& 0 <= h < self.heap@.len()
        &&& self.heap@.len() == old.heap@.len()
        &&& item.slab_idx < self.slab@.len()
        &&& self.slab@[item.slab_idx as int].is_heap()
        &&& self.slab@[item.slab_idx as int].val() == old.slab@[item.slab_idx as int].val()
        &&& self.xidx_ok(h)
        &&& self.slab_ok(item.slab_idx as int, h)
        &&& self.order_ok(h)
        &&& (forall|i: int| 0 <= i < self.heap@.len() && i != h ==> (#[trigger] self.heap@[i]).slab_idx != item.slab_idx)
        &&& self.same_entries(old, item.slab_idx as int)
        &&& self.first_free_node == old.first_free_node
        &&& self.next_epoch == old.next_epoch
    }
    pub open spec fn le_children(&self, k: UniqueKey<K>, h: int) -> bool {
        forall|c: int| Self::is_child(c, h) && c < self.heap@.len() ==> ule(k, (#[trigger] self.heap@[c]).key)
    }
    pub open spec fn bridge(&self, h: int) -> bool {
        h >= 1 ==> self.le_children(self.heap@[parent(h)].key, h)
    }
    pub open spec fn parent_le(&self, k: UniqueKey<K>, h: int) -> bool {
        h >= 1 ==> ule(self.heap@[parent(h)].key, k)
    }
    #[verifier::opaque]
    pub open spec fn placed(&self, old: &Self, item: Item<K>) -> bool {
        &&& self.heap@.len() == old.heap@.len()
        &&& self.xidx_ok(-1) && self.slab_ok(-1, -1) && self.order_ok(-1)
        &&& self.same_entries(old, item.slab_idx as int)
        &&& item.slab_idx < self.slab@.len()
        &&& self.slab@[item.slab_idx as int].is_heap()
        &&& self.slab@[item.slab_idx as int].val() == old.slab@[item.slab_idx as int].val()
        &&& self.key_of(item.slab_idx as int) == item.key
        &&& self.first_free_node == old.first_free_node
        &&& self.next_epoch == old.next_epoch
    }
    pub proof fn lemma_placed_epoch(&self, old: &Self, item: Item<K>)
        requires self.placed(old, item)
        ensures self.next_epoch == old.next_epoch
    { reveal(IndexedPriorityQueue::placed); }
    /// `post` is `pre` after `heap[to] = heap[from]; slab[heap[from].slab_idx].heap_idx = to`
    pub open spec fn moved(pre: &Self, post: &Self, from: int, to: int) -> bool {
        let cs = pre.heap@[from].slab_idx as int;
        &&& post.heap@ == pre.heap@.update(to, pre.heap@[from])
        &&& post.slab@.len() == pre.slab@.len()
        &&& (forall|s: int| 0 <= s < pre.slab@.len() && s != cs ==> #[trigger] post.slab@[s] == pre.slab@[s])
        &&& post.slab@[cs].is_heap() && post.slab@[cs].val() == pre.slab@[cs].val() && post.slab@[cs].hidx() == to
        &&& post.first_free_node == pre.first_free_node && post.next_epoch == pre.next_epoch
    }
    /// `post` is `pre` after `heap[h] = item; slab[item.slab_idx].heap_idx = h`
    pub open spec fn put(pre: &Self, post: &Self, item: Item<K>, h: int) -> bool {
        let cs = item.slab_idx as int;
        &&& post.heap@ == pre.heap@.update(h, item)
        &&& post.slab@.len() == pre.slab@.len()
        &&& (forall|s: int| 0 <= s < pre.slab@.len() && s != cs ==> #[trigger] post.slab@[s] == pre.slab@[s])
        &&& post.slab@[cs].is_heap() && post.slab@[cs].val() == pre.slab@[cs].val() && post.slab@[cs].hidx() == h
        &&& post.first_free_node == pre.first_free_node && post.next_epoch == pre.next_epoch
    }

    pub proof fn lemma_hole_bounds(&self, old: &Self, item: Item<K>, h: int)
        requires self.hole_inv(old, item, h)
        ensures
            0 <= h < self.heap@.len(), self.heap@.len() == old.heap@.len(),
            item.slab_idx < self.slab@.len(), self.slab@[item.slab_idx as int].is_heap(),
            forall|i: int| 0 <= i < self.heap@.len() && i != h ==>
                (#[trigger] self.heap@[i]).slab_idx < self.slab@.len() && self.slab@[self.heap@[i].slab_idx as int].is_heap(),
    {
        reveal(IndexedPriorityQueue::hole_inv);
    }

    pub proof fn lemma_sift_up_step(pre: &Self, post: &Self, old: &Self, item: Item<K>, h: int)
        requires
            total_order::<K>(),
            pre.hole_inv(old, item, h), pre.le_children(item.key, h), pre.bridge(h),
            h >= 1, ult(item.key, pre.heap@[parent(h)].key),
            Self::moved(pre, post, parent(h), h),
        ensures
            post.hole_inv(old, item, parent(h)), post.le_children(item.key, parent(h)), post.bridge(parent(h)),
    {
        reveal(IndexedPriorityQueue::hole_inv);
        let p = parent(h);
        let len = pre.heap@.len() as int;
        assert(post.heap@[h].key == pre.heap@[p].key);
        assert forall|c: int| Self::is_child(c, p) && c < len implies ule(item.key, (#[trigger] post.heap@[c]).key) by {
            if c != h {
                assert(parent(c) == p);
                assert(post.heap@[c] == pre.heap@[c]);
                lemma_ule_trans(item.key, pre.heap@[p].key, pre.heap@[c].key);
            }
        }
        if p >= 1 {
            let gp = parent(p);
            assert forall|c: int| Self::is_child(c, p) && c < len implies ule(post.heap@[gp].key, (#[trigger] post.heap@[c]).key) by {
                assert(ule(pre.heap@[gp].key, pre.heap@[p].key));
                if c != h {
                    assert(parent(c) == p);
                    assert(post.heap@[c] == pre.heap@[c]);
                    lemma_ule_trans(pre.heap@[gp].key, pre.heap@[p].key, pre.heap@[c].key);
                }
            }
        }
        let ps = pre.heap@[p].slab_idx as int;
        assert(post.xidx_ok(p)) by {
            assert forall|i: int| 0 <= i < post.heap@.len() && i != p implies
                (#[trigger] post.heap@[i]).slab_idx < post.slab@.len()
                && post.slab@[post.heap@[i].slab_idx as int].is_heap()
                && post.slab@[post.heap@[i].slab_idx as int].hidx() == i by {
                if i != h { assert(post.heap@[i] == pre.heap@[i]); assert(pre.heap@[i].slab_idx != ps); }
            }
        }
        assert(post.slab_ok(item.slab_idx as int, p)) by {
            assert forall|s: int| 0 <= s < post.slab@.len() && s != item.slab_idx && (#[trigger] post.slab@[s]).is_heap() implies
                post.slab@[s].hidx() < post.heap@.len() && post.slab@[s].hidx() != p
                && post.heap@[post.slab@[s].hidx() as int].slab_idx == s by {
                if s != ps { assert(post.slab@[s] == pre.slab@[s]); assert(pre.slab@[s].is_heap()); }
            }
        }
        assert(post.order_ok(p)) by {
            assert forall|i: int| 1 <= i < post.heap@.len() && i != p && parent(i) != p implies
                ule(post.heap@[parent(i)].key, (#[trigger] post.heap@[i]).key) by {
                if parent(i) == h {
                    assert(Self::is_child(i, h));
                    assert(post.heap@[i] == pre.heap@[i]);
                } else if i == h {
                } else {
                    assert(post.heap@[i] == pre.heap@[i]);
                    assert(post.heap@[parent(i)] == pre.heap@[parent(i)]);
                }
            }
        }
        assert(post.same_entries(old, item.slab_idx as int)) by {
            assert forall|s: int| 0 <= s < old.slab@.len() && s != item.slab_idx implies
                ((#[trigger] old.slab@[s]).is_heap() ==> post.slab@[s].is_heap() && post.slab@[s].val() == old.slab@[s].val() && post.key_of(s) == old.key_of(s))
                && (!old.slab@[s].is_heap() ==> post.slab@[s] == old.slab@[s]) by {
                if s != ps { assert(post.slab@[s] == pre.slab@[s]); }
                if old.slab@[s].is_heap() && s != ps {
                    assert(pre.slab@[s].is_heap());
                    assert(pre.slab@[s].hidx() != h);
                    assert(pre.slab@[s].hidx() != p);
                }
            }
        }
        assert forall|i: int| 0 <= i < post.heap@.len() && i != p implies (#[trigger] post.heap@[i]).slab_idx != item.slab_idx by {
            if i != h { assert(post.heap@[i] == pre.heap@[i]); }
        }
    }

    pub proof fn lemma_sift_down_step(pre: &Self, post: &Self, old: &Self, item: Item<K>, h: int, c: int)
        requires
            total_order::<K>(),
            pre.hole_inv(old, item, h), pre.bridge(h),
            Self::is_child(c, h), c < pre.heap@.len(),
            pre.le_children(pre.heap@[c].key, h),
            ult(pre.heap@[c].key, item.key),
            Self::moved(pre, post, c, h),
        ensures
            post.hole_inv(old, item, c), post.bridge(c), post.parent_le(item.key, c),
    {
        reveal(IndexedPriorityQueue::hole_inv);
        let len = pre.heap@.len() as int;
        assert(parent(c) == h);
        assert(post.heap@[h].key == pre.heap@[c].key);
        assert forall|gc: int| Self::is_child(gc, c) && gc < len implies ule(post.heap@[h].key, (#[trigger] post.heap@[gc]).key) by {
            assert(parent(gc) == c);
            assert(post.heap@[gc] == pre.heap@[gc]);
        }
        let cs = pre.heap@[c].slab_idx as int;
        assert(post.xidx_ok(c)) by {
            assert forall|i: int| 0 <= i < post.heap@.len() && i != c implies
                (#[trigger] post.heap@[i]).slab_idx < post.slab@.len()
                && post.slab@[post.heap@[i].slab_idx as int].is_heap()
                && post.slab@[post.heap@[i].slab_idx as int].hidx() == i by {
                if i != h { assert(post.heap@[i] == pre.heap@[i]); assert(pre.heap@[i].slab_idx != cs); }
            }
        }
        assert(post.slab_ok(item.slab_idx as int, c)) by {
            assert forall|s: int| 0 <= s < post.slab@.len() && s != item.slab_idx && (#[trigger] post.slab@[s]).is_heap() implies
                post.slab@[s].hidx() < post.heap@.len() && post.slab@[s].hidx() != c
                && post.heap@[post.slab@[s].hidx() as int].slab_idx == s by {
                if s != cs { assert(post.slab@[s] == pre.slab@[s]); assert(pre.slab@[s].is_heap()); }
            }
        }
        assert(post.order_ok(c)) by {
            assert forall|i: int| 1 <= i < post.heap@.len() && i != c && parent(i) != c implies
                ule(post.heap@[parent(i)].key, (#[trigger] post.heap@[i]).key) by {
                if parent(i) == h {
                    // i is the other child of h
                    assert(Self::is_child(i, h));
                    assert(post.heap@[i] == pre.heap@[i]);
                } else if i == h {
                    // parent(h) <= old child (bridge)
                    assert(post.heap@[parent(h)] == pre.heap@[parent(h)]);
                } else {
                    assert(post.heap@[i] == pre.heap@[i]);
                    assert(post.heap@[parent(i)] == pre.heap@[parent(i)]);
                }
            }
        }
        assert(post.same_entries(old, item.slab_idx as int)) by {
            assert forall|s: int| 0 <= s < old.slab@.len() && s != item.slab_idx implies
                ((#[trigger] old.slab@[s]).is_heap() ==> post.slab@[s].is_heap() && post.slab@[s].val() == old.slab@[s].val() && post.key_of(s) == old.key_of(s))
                && (!old.slab@[s].is_heap() ==> post.slab@[s] == old.slab@[s]) by {
                if s != cs { assert(post.slab@[s] == pre.slab@[s]); }
                if old.slab@[s].is_heap() && s != cs {
                    assert(pre.slab@[s].is_heap());
                    assert(pre.slab@[s].hidx() != h);
                    assert(pre.slab@[s].hidx() != c);
                }
            }
        }
        assert forall|i: int| 0 <= i < post.heap@.len() && i != c implies (#[trigger] post.heap@[i]).slab_idx != item.slab_idx by {
            if i != h { assert(post.heap@[i] == pre.heap@[i]); }
        }
    }

    pub proof fn lemma_place(pre: &Self, post: &Self, old: &Self, item: Item<K>, h: int)
        requires
            total_order::<K>(),
            pre.hole_inv(old, item, h), pre.le_children(item.key, h), pre.parent_le(item.key, h),
            Self::put(pre, post, item, h),
        ensures
            post.placed(old, item),
    {
        reveal(IndexedPriorityQueue::hole_inv);
        reveal(IndexedPriorityQueue::placed);
        let cs = item.slab_idx as int;
        assert(post.xidx_ok(-1)) by {
            assert forall|i: int| 0 <= i < post.heap@.len() implies
                (#[trigger] post.heap@[i]).slab_idx < post.slab@.len()
                && post.slab@[post.heap@[i].slab_idx as int].is_heap()
                && post.slab@[post.heap@[i].slab_idx as int].hidx() == i by {
                if i != h { assert(post.heap@[i] == pre.heap@[i]); }
            }
        }
        assert(post.slab_ok(-1, -1)) by {
            assert forall|s: int| 0 <= s < post.slab@.len() && (#[trigger] post.slab@[s]).is_heap() implies
                post.slab@[s].hidx() < post.heap@.len()
                && post.heap@[post.slab@[s].hidx() as int].slab_idx == s by {
                if s != cs { assert(post.slab@[s] == pre.slab@[s]); }
            }
        }
        assert(post.order_ok(-1)) by {
            assert forall|i: int| 1 <= i < post.heap@.len() implies
                ule(post.heap@[parent(i)].key, (#[trigger] post.heap@[i]).key) by {
                if i == h {
                    assert(post.heap@[parent(i)] == pre.heap@[parent(i)]);
                } else if parent(i) == h {
                    assert(Self::is_child(i, h));
                    assert(post.heap@[i] == pre.heap@[i]);
                } else {
                    assert(post.heap@[i] == pre.heap@[i]);
                    assert(post.heap@[parent(i)] == pre.heap@[parent(i)]);
                }
            }
        }
        assert(post.same_entries(old, cs)) by {
            assert forall|s: int| 0 <= s < old.slab@.len() && s != cs implies
                ((#[trigger] old.slab@[s]).is_heap() ==> post.slab@[s].is_heap() && post.slab@[s].val() == old.slab@[s].val() && post.key_of(s) == old.key_of(s))
                && (!old.slab@[s].is_heap() ==> post.slab@[s] == old.slab@[s]) by {
                assert(post.slab@[s] == pre.slab@[s]);
                if old.slab@[s].is_heap() {
                    assert(pre.slab@[s].is_heap());
                    assert(pre.slab@[s].hidx() != h);
                }
            }
        }
    }
}

impl<K: Copy + Ord, V> IndexedPriorityQueue<K, V> {
    pub open spec fn dom(&self, s: int) -> bool { 0 <= s < self.slab@.len() && self.slab@[s].is_heap() }
    /// abstract view: partial function slab index -> (unique key, value), given by `dom` and `entry`
    pub open spec fn entry(&self, s: int) -> (UniqueKey<K>, V) { (self.key_of(s), self.slab@[s].val()) }
    /// the views of `self` and `old` agree everywhere except possibly at slab index `s0`
    pub open spec fn view_eq_except(&self, old: &Self, s0: int) -> bool {
        forall|s: int| s != s0 ==> (#[trigger] self.dom(s) == old.dom(s)) && (old.dom(s) ==> self.entry(s) == old.entry(s))
    }
    pub open spec fn epochs_ok(&self) -> bool {
        &&& forall|s: int| self.dom(s) ==> (#[trigger] self.key_of(s)).epoch < self.next_epoch
        &&& forall|s1: int, s2: int| self.dom(s1) && self.dom(s2) && s1 != s2 ==> (#[trigger] self.key_of(s1)).epoch != (#[trigger] self.key_of(s2)).epoch
    }
    pub open spec fn wf(&self) -> bool {
        self.xidx_ok(-1) && self.slab_ok(-1, -1) && self.order_ok(-1) && self.free_ok() && self.epochs_ok()
        && self.heap@.len() < usize::MAX / 2 - 1
    }
    pub open spec fn is_min(&self, s: int) -> bool {
        self.dom(s) && forall|s2: int| self.dom(s2) ==> ule(self.key_of(s), #[trigger] self.key_of(s2))
    }
    pub proof fn lemma_root_min(&self, i: int)
        requires total_order::<K>(), self.order_ok(-1), 0 <= i < self.heap@.len(),
        ensures ule(self.heap@[0].key, self.heap@[i].key)
        decreases i
    {
        if i == 0 {
            lemma_ule_total(self.heap@[0].key, self.heap@[0].key);
            assert(kcmp(self.heap@[0].key.key, self.heap@[0].key.key) == Some(Ordering::Equal));
        } else {
            self.lemma_root_min(parent(i));
            assert(ule(self.heap@[parent(i)].key, self.heap@[i].key));
            lemma_ule_trans(self.heap@[0].key, self.heap@[parent(i)].key, self.heap@[i].key);
        }
    }
    pub proof fn lemma_top_is_min(&self)
        requires total_order::<K>(), self.wf(), self.heap@.len() > 0,
        ensures self.is_min(self.heap@[0].slab_idx as int), self.key_of(self.heap@[0].slab_idx as int) == self.heap@[0].key,
    {
        let s0 = self.heap@[0].slab_idx as int;
        assert forall|s2: int| self.dom(s2) implies ule(self.key_of(s0), #[trigger] self.key_of(s2)) by {
            self.lemma_root_min(self.slab@[s2].hidx() as int);
        }
    }
}

impl<K: Copy + Ord, V> IndexedPriorityQueue<K, V> {
    // ---------------- insert ----------------
    pub proof fn lemma_insert_ready(old: &Self, mid: &Self, item: Item<K>, dummy: Item<K>)
        requires
            total_order::<K>(), old.wf(),
            mid.heap@ == old.heap@.push(dummy),
            item.slab_idx <= old.slab@.len(), !old.dom(item.slab_idx as int),
            mid.slab@.len() >= old.slab@.len(), item.slab_idx < mid.slab@.len(),
            forall|s: int| 0 <= s < old.slab@.len() && s != item.slab_idx ==> #[trigger] mid.slab@[s] == old.slab@[s],
            mid.slab@.len() == old.slab@.len() || (mid.slab@.len() == old.slab@.len() + 1 && item.slab_idx == old.slab@.len()),
            mid.slab@[item.slab_idx as int].is_heap(),
        ensures
            mid.hole_inv(mid, item, old.heap@.len() as int),
            mid.le_children(item.key, old.heap@.len() as int),
            mid.bridge(old.heap@.len() as int),
    {
        reveal(IndexedPriorityQueue::hole_inv);
        let h = old.heap@.len() as int;
        assert forall|i: int| 0 <= i < mid.heap@.len() && i != h implies
            (#[trigger] mid.heap@[i]).slab_idx < mid.slab@.len()
            && mid.slab@[mid.heap@[i].slab_idx as int].is_heap()
            && mid.slab@[mid.heap@[i].slab_idx as int].hidx() == i
            && mid.heap@[i].slab_idx != item.slab_idx by {
            assert(mid.heap@[i] == old.heap@[i]);
            assert(old.dom(old.heap@[i].slab_idx as int));
        }
        assert forall|s: int| 0 <= s < mid.slab@.len() && s != item.slab_idx && (#[trigger] mid.slab@[s]).is_heap() implies
            mid.slab@[s].hidx() < mid.heap@.len() && mid.slab@[s].hidx() != h
            && mid.heap@[mid.slab@[s].hidx() as int].slab_idx == s by {
            assert(mid.slab@[s] == old.slab@[s]);
            assert(mid.heap@[old.slab@[s].hidx() as int] == old.heap@[old.slab@[s].hidx() as int]);
        }
        assert forall|i: int| 1 <= i < mid.heap@.len() && i != h && parent(i) != h implies
            ule(mid.heap@[parent(i)].key, (#[trigger] mid.heap@[i]).key) by {
            assert(mid.heap@[i] == old.heap@[i]);
            assert(mid.heap@[parent(i)] == old.heap@[parent(i)]);
        }
    }
    pub proof fn lemma_insert_done(old: &Self, mid: &Self, fin: &Self, item: Item<K>, value: V)
        requires
            total_order::<K>(), old.wf(),
            fin.placed(mid, item),
            mid.heap@.len() == old.heap@.len() + 1,
            item.slab_idx <= old.slab@.len(), !old.dom(item.slab_idx as int),
            mid.slab@.len() >= old.slab@.len(), item.slab_idx < mid.slab@.len(),
            forall|s: int| 0 <= s < old.slab@.len() && s != item.slab_idx ==> #[trigger] mid.slab@[s] == old.slab@[s],
            mid.slab@.len() == old.slab@.len() || (mid.slab@.len() == old.slab@.len() + 1 && item.slab_idx == old.slab@.len()),
            mid.slab@[item.slab_idx as int].is_heap(), mid.slab@[item.slab_idx as int].val() == value,
            forall|i: int| 0 <= i < old.heap@.len() ==> #[trigger] mid.heap@[i] == old.heap@[i],
            item.key.epoch == old.next_epoch, mid.next_epoch == old.next_epoch + 1,
            mid.free_ok(),
            old.heap@.len() + 1 < usize::MAX / 2 - 1,
        ensures
            fin.wf(),
            fin.view_eq_except(old, item.slab_idx as int),
            fin.dom(item.slab_idx as int), fin.entry(item.slab_idx as int) == (item.key, value),
            fin.next_epoch == mid.next_epoch,
    {
        reveal(IndexedPriorityQueue::placed);
        let cs = item.slab_idx as int;
        // keys of old entries are unchanged
        assert forall|s: int| s != cs implies (#[trigger] fin.dom(s) == old.dom(s)) && (old.dom(s) ==> fin.entry(s) == old.entry(s)) by {
            if 0 <= s < old.slab@.len() {
                assert(mid.slab@[s] == old.slab@[s]);
                if old.slab@[s].is_heap() {
                    assert(mid.key_of(s) == old.key_of(s)) by {
                        assert(mid.heap@[old.slab@[s].hidx() as int] == old.heap@[old.slab@[s].hidx() as int]);
                    }
                }
            }
        }
        assert(fin.free_ok()) by {
            assert forall|s: int| 0 <= s < fin.slab@.len() && !(#[trigger] fin.slab@[s]).is_heap() implies
                (fin.slab@[s]->FreeNode_0.next matches Some(n) ==> n < fin.slab@.len()) by {
                if s != cs { assert(!mid.slab@[s].is_heap()); }
            }
        }
        assert(fin.epochs_ok()) by {
            assert forall|s: int| fin.dom(s) implies (#[trigger] fin.key_of(s)).epoch < fin.next_epoch by {
                if s != cs { assert(old.dom(s)); assert(fin.entry(s) == old.entry(s)); }
            }
            assert forall|s1: int, s2: int| fin.dom(s1) && fin.dom(s2) && s1 != s2 implies (#[trigger] fin.key_of(s1)).epoch != (#[trigger] fin.key_of(s2)).epoch by {
                if s1 != cs { assert(old.dom(s1)); assert(fin.entry(s1) == old.entry(s1)); }
                if s2 != cs { assert(old.dom(s2)); assert(fin.entry(s2) == old.entry(s2)); }
            }
        }
    }
}

impl<K: Copy + Ord, V> IndexedPriorityQueue<K, V> {
    // ---------------- removal (pull / extract) ----------------
    /// `mid` is `old` after: slab[rs] := FreeNode{next: old.first_free_node}; first_free_node := Some(rs); heap.pop()
    pub open spec fn removed(old: &Self, mid: &Self, rs: int) -> bool {
        &&& old.heap@.len() > 0
        &&& mid.heap@ == old.heap@.drop_last()
        &&& mid.slab@.len() == old.slab@.len()
        &&& 0 <= rs < old.slab@.len()
        &&& (forall|s: int| 0 <= s < old.slab@.len() && s != rs ==> #[trigger] mid.slab@[s] == old.slab@[s])
        &&& !mid.slab@[rs].is_heap() && (mid.slab@[rs]->FreeNode_0.next matches Some(n) ==> n < mid.slab@.len())
        &&& (mid.first_free_node matches Some(f) ==> f < mid.slab@.len())
        &&& mid.next_epoch == old.next_epoch
    }
    pub proof fn lemma_remove_last(old: &Self, mid: &Self, rs: int)
        requires
            total_order::<K>(), old.wf(), old.dom(rs), Self::removed(old, mid, rs),
            old.heap@.last().slab_idx == rs,
        ensures
            mid.wf(), mid.view_eq_except(old, rs), !mid.dom(rs),
    {
        let n = old.heap@.len() as int;
        assert(old.slab@[rs].hidx() == n - 1) by {
            assert(old.heap@[n - 1].slab_idx == rs);
        }
        assert forall|s: int| s != rs implies (#[trigger] mid.dom(s) == old.dom(s)) && (old.dom(s) ==> mid.entry(s) == old.entry(s)) by {
            if 0 <= s < old.slab@.len() && old.slab@[s].is_heap() {
                assert(old.slab@[s].hidx() != n - 1);
                assert(mid.heap@[old.slab@[s].hidx() as int] == old.heap@[old.slab@[s].hidx() as int]);
            }
        }
        assert(mid.xidx_ok(-1)) by {
            assert forall|i: int| 0 <= i < mid.heap@.len() implies
                (#[trigger] mid.heap@[i]).slab_idx < mid.slab@.len()
                && mid.slab@[mid.heap@[i].slab_idx as int].is_heap()
                && mid.slab@[mid.heap@[i].slab_idx as int].hidx() == i by {
                assert(mid.heap@[i] == old.heap@[i]);
                assert(old.heap@[i].slab_idx != rs);
            }
        }
        assert(mid.slab_ok(-1, -1)) by {
            assert forall|s: int| 0 <= s < mid.slab@.len() && (#[trigger] mid.slab@[s]).is_heap() implies
                mid.slab@[s].hidx() < mid.heap@.len()
                && mid.heap@[mid.slab@[s].hidx() as int].slab_idx == s by {
                assert(mid.slab@[s] == old.slab@[s]);
                assert(old.slab@[s].hidx() != n - 1);
            }
        }
        assert(mid.order_ok(-1)) by {
            assert forall|i: int| 1 <= i < mid.heap@.len() implies ule(mid.heap@[parent(i)].key, (#[trigger] mid.heap@[i]).key) by {
                assert(mid.heap@[i] == old.heap@[i]); assert(mid.heap@[parent(i)] == old.heap@[parent(i)]);
            }
        }
        Self::lemma_epochs_after_remove(old, mid, rs);
        assert(mid.free_ok()) by {
            assert forall|s: int| 0 <= s < mid.slab@.len() && !(#[trigger] mid.slab@[s]).is_heap() implies
                (mid.slab@[s]->FreeNode_0.next matches Some(nn) ==> nn < mid.slab@.len()) by {
                if s != rs { assert(mid.slab@[s] == old.slab@[s]); }
            }
        }
    }
    pub proof fn lemma_epochs_after_remove(old: &Self, fin: &Self, rs: int)
        requires old.epochs_ok(), fin.view_eq_except(old, rs), !fin.dom(rs), fin.next_epoch == old.next_epoch,
        ensures fin.epochs_ok()
    {
        assert forall|s: int| fin.dom(s) implies (#[trigger] fin.key_of(s)).epoch < fin.next_epoch by {
            assert(s != rs); assert(old.dom(s)); assert(fin.entry(s) == old.entry(s));
        }
        assert forall|s1: int, s2: int| fin.dom(s1) && fin.dom(s2) && s1 != s2 implies (#[trigger] fin.key_of(s1)).epoch != (#[trigger] fin.key_of(s2)).epoch by {
            assert(old.dom(s1)); assert(fin.entry(s1) == old.entry(s1));
            assert(old.dom(s2)); assert(fin.entry(s2) == old.entry(s2));
        }
    }
    pub proof fn lemma_remove_ready(old: &Self, mid: &Self, rs: int, last: Item<K>)
        requires
            total_order::<K>(), old.wf(), old.dom(rs), Self::removed(old, mid, rs),
            last == old.heap@.last(), last.slab_idx != rs,
        ensures
            ({ let r = old.slab@[rs].hidx() as int;
               &&& r < mid.heap@.len()
               &&& mid.heap@[r] == old.heap@[r]
               &&& mid.hole_inv(mid, last, r)
               &&& mid.bridge(r)
               &&& (ult(last.key, old.heap@[r].key) ==> mid.le_children(last.key, r))
               &&& (!ult(last.key, old.heap@[r].key) ==> mid.parent_le(last.key, r)) }),
    {
        reveal(IndexedPriorityQueue::hole_inv);
        let n = old.heap@.len() as int;
        let r = old.slab@[rs].hidx() as int;
        assert(old.heap@[r].slab_idx == rs);
        assert(r != n - 1);
        let ls = last.slab_idx as int;
        assert(old.slab@[ls].is_heap() && old.slab@[ls].hidx() == n - 1) by { assert(old.heap@[n - 1] == last); }
        assert forall|i: int| 0 <= i < mid.heap@.len() && i != r implies
            (#[trigger] mid.heap@[i]).slab_idx < mid.slab@.len()
            && mid.slab@[mid.heap@[i].slab_idx as int].is_heap()
            && mid.slab@[mid.heap@[i].slab_idx as int].hidx() == i
            && mid.heap@[i].slab_idx != last.slab_idx by {
            assert(mid.heap@[i] == old.heap@[i]);
            assert(old.heap@[i].slab_idx != rs);
        }
        assert forall|s: int| 0 <= s < mid.slab@.len() && s != ls && (#[trigger] mid.slab@[s]).is_heap() implies
            mid.slab@[s].hidx() < mid.heap@.len() && mid.slab@[s].hidx() != r
            && mid.heap@[mid.slab@[s].hidx() as int].slab_idx == s by {
            assert(s != rs);
            assert(mid.slab@[s] == old.slab@[s]);
            assert(old.slab@[s].hidx() != n - 1);
            assert(mid.heap@[old.slab@[s].hidx() as int] == old.heap@[old.slab@[s].hidx() as int]);
        }
        assert forall|i: int| 1 <= i < mid.heap@.len() && i != r && parent(i) != r implies
            ule(mid.heap@[parent(i)].key, (#[trigger] mid.heap@[i]).key) by {
            assert(mid.heap@[i] == old.heap@[i]); assert(mid.heap@[parent(i)] == old.heap@[parent(i)]);
        }
        // children of r are >= old[r]; parent of r is <= old[r]
        assert forall|c: int| Self::is_child(c, r) && c < mid.heap@.len() implies ule(old.heap@[r].key, (#[trigger] mid.heap@[c]).key) by {
            assert(parent(c) == r);
            assert(mid.heap@[c] == old.heap@[c]);
        }
        if r >= 1 {
            assert(mid.heap@[parent(r)] == old.heap@[parent(r)]);
            assert(ule(old.heap@[parent(r)].key, old.heap@[r].key));
            assert forall|c: int| Self::is_child(c, r) && c < mid.heap@.len() implies ule(mid.heap@[parent(r)].key, (#[trigger] mid.heap@[c]).key) by {
                lemma_ule_trans(old.heap@[parent(r)].key, old.heap@[r].key, mid.heap@[c].key);
            }
        }
        lemma_ule_total(last.key, old.heap@[r].key);
        if ult(last.key, old.heap@[r].key) {
            assert forall|c: int| Self::is_child(c, r) && c < mid.heap@.len() implies ule(last.key, (#[trigger] mid.heap@[c]).key) by {
                lemma_ule_trans(last.key, old.heap@[r].key, mid.heap@[c].key);
            }
        } else {
            lemma_ule_total(old.heap@[r].key, last.key);
            if r >= 1 { lemma_ule_trans(old.heap@[parent(r)].key, old.heap@[r].key, last.key); }
        }
    }
    pub proof fn lemma_remove_done(old: &Self, mid: &Self, fin: &Self, rs: int, last: Item<K>)
        requires
            total_order::<K>(), old.wf(), old.dom(rs), Self::removed(old, mid, rs),
            last == old.heap@.last(), last.slab_idx != rs,
            fin.placed(mid, last),
        ensures
            fin.wf(), fin.view_eq_except(old, rs), !fin.dom(rs),
    {
        reveal(IndexedPriorityQueue::placed);
        let n = old.heap@.len() as int;
        let ls = last.slab_idx as int;
        assert(old.slab@[ls].is_heap() && old.slab@[ls].hidx() == n - 1) by { assert(old.heap@[n - 1] == last); }
        assert(old.key_of(ls) == last.key);
        assert(fin.slab@.len() == mid.slab@.len());
        assert forall|s: int| s != rs implies (#[trigger] fin.dom(s) == old.dom(s)) && (old.dom(s) ==> fin.entry(s) == old.entry(s)) by {
            if 0 <= s < old.slab@.len() {
                assert(mid.slab@[s] == old.slab@[s]);
                if old.slab@[s].is_heap() {
                    if s != ls {
                        assert(old.slab@[s].hidx() != n - 1);
                        assert(mid.key_of(s) == old.key_of(s)) by {
                            assert(mid.heap@[old.slab@[s].hidx() as int] == old.heap@[old.slab@[s].hidx() as int]);
                        }
                        assert(mid.slab@[s].is_heap());
                        assert(fin.slab@[s].is_heap() && fin.slab@[s].val() == mid.slab@[s].val() && fin.key_of(s) == mid.key_of(s));
                    } else {
                        assert(fin.slab@[ls].is_heap() && fin.key_of(ls) == last.key && fin.slab@[ls].val() == mid.slab@[ls].val());
                    }
                } else {
                    assert(!mid.slab@[s].is_heap());
                    assert(fin.slab@[s] == mid.slab@[s]);
                }
            }
        }
        assert(!fin.dom(rs)) by {
            assert(!mid.slab@[rs].is_heap());
            assert(fin.slab@[rs] == mid.slab@[rs]);
        }
        Self::lemma_epochs_after_remove(old, fin, rs);
        assert(fin.free_ok()) by {
            assert forall|s: int| 0 <= s < fin.slab@.len() && !(#[trigger] fin.slab@[s]).is_heap() implies
                (fin.slab@[s]->FreeNode_0.next matches Some(nn) ==> nn < fin.slab@.len()) by {
                assert(s != ls);
                assert(!mid.slab@[s].is_heap());
                if s != rs { assert(mid.slab@[s] == old.slab@[s]); }
            }
        }
    }
}

}
fn main(){}
