//@unit xchan
//@exec
//@props C12,C06
//@stubcrate name=async_event file=inc/stubcrates/async_event.rs
//@stubcrate name=diatomic_waker file=inc/stubcrates/diatomic_waker.rs
//@stubcrate name=recycle_box file=inc/stubcrates/recycle_box.rs
//@stubcrate name=crossbeam_utils file=inc/stubcrates/crossbeam_utils.rs
//@aux dst=channel/queue.rs src=nexosim/src/channel/queue.rs
// BOUNDED executable stand-in for the mailbox as the models use it (labelled bounded, never counted as proved): the REAL text
// of channel.rs (whole file: Receiver::recv, Sender::send, close, drop, observers, the in-flight counter), of
// channel/queue.rs (whole file, copied verbatim next to the unit: it is the `mod queue;` of channel.rs) and of
// loom_exports.rs is compiled with NO rewrite rule against executable stubs of four external crates (async_event: a list of
// waiting tasks, a notification is not stored; diatomic_waker: one waker slot; recycle_box: a plain Box; crossbeam_utils:
// CachePadded as a transparent wrapper). `main` runs, on ONE thread, two sender tasks and the receiver task of one mailbox
// under EVERY cooperative schedule up to the bound (which woken task is polled next; optionally one blocked send future is
// dropped, or the receiver is dropped) and compares with C12: never more than `capacity` messages held, every message
// delivered exactly once and in its producer's order, the reported length equals the number held between operations, a
// task waiting for space or for a message is woken once its condition holds (no schedule ends with an unfinished task and
// nothing woken), sends fail after the mailbox is closed while accepted messages remain receivable; and with C06: when
// every accepted message has been processed the in-flight counter is back to zero (a dropped pending send is not counted).
// Interleavings of threads inside one operation (the lock-free queue under the C11 model) are NOT explored.
#![allow(dead_code, unused_imports, unused_variables, unused_mut, unused_macros, unreachable_code)]
pub mod loom_exports {
//@item src=nexosim/src/loom_exports.rs kind=filehead name=loom_exports id=file-loom_exports
//@end
}
pub mod model {
    use std::marker::PhantomData;
    pub trait Model: Sized + Send + 'static {}
    pub struct Context<M>(pub PhantomData<M>);
}
pub mod channel {
//@item src=nexosim/src/channel.rs kind=filehead name=channel id=file-channel
//@end
}

//@include inc/xchan_harness.rs
