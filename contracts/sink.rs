//@unit sink
//@props C17
// Unit sink: EventBuffer / EventSlot (nexosim/src/ports/sink/*.rs), property C17.
// Sequentialisation (declared rules): Arc<Inner<T>> -> Inner<T>, AtomicBool -> bool,
// Mutex<X> -> X, lock().unwrap() -> exclusive access, try_lock() -> always succeeds
// (assumption "no contention": the reader is not used while the simulation runs).
//@rule ARC :: Arc<Inner<T>> :: Inner<T> :: R2 sharing elided: writer and reader operate on the same Inner
//@rule ARC2 :: Arc<SlotInner<T>> :: SlotInner<T> :: R2
//@rule ARCNEW :: Arc::new\( :: ( :: R2
//@rule ABOOL :: AtomicBool\b(?!::) :: bool :: R3 relaxed atomic flag as a plain field
//@rule ABOOLNEW :: AtomicBool::new\( :: ( :: R3
//@rule MUTEX :: Mutex<((?:[^<>]|<[^<>]*>)*)> :: \1 :: R1 lock elision
//@rule MUTEXNEW :: Mutex::new\( :: ( :: R1
//@rule LOAD :: \.load\(Ordering::Relaxed\) ::  :: R3
//@rule STORE :: \.store\((\w+), Ordering::Relaxed\) ::  = \1 :: R3
//@rule LOCKLET :: let mut (\w+) = (self(?:\.\w+)+)\.lock\(\)\.unwrap\(\); :: let \1 = &mut \2; :: R1
//@rule LOCKEXPR :: \.lock\(\)\.unwrap\(\) ::  :: R1
//@rule TRYLOCK :: (self(?:\.\w+)+)\.try_lock\(\) :: try_lock_seq(&mut \1) :: R1 try_lock never contended (assumption)
//@rule TRYLOCKBUF :: (self(?:\.\w+)+)\.try_lock\(\) :: try_lock_buffer(&mut \1) :: R1 a try_lock on the BUFFER's mutex may find it taken (the reader of a buffer - e.g. a monitoring thread draining it - may hold it while the simulation writes): WouldBlock is a possible answer
//@rule MUTSELF :: \(&self\b :: (&mut self :: R2 interior mutability made explicit
//@rule PANIC :: panic!\(\) :: vpanic() :: R6
//@rule PUBSTRUCT :: ^(\s*)(?:pub(?:\(crate\))? )?struct :: \1pub struct :: R7
//@rule SLOTINNER :: \bInner\b :: SlotInner :: R7 rename: both files call their shared state Inner
//@rule SELFITEM :: Self::Item :: T :: R7 associated type of the dropped trait header
//@pyrule PUBFIELDS :: pub_fields() :: R7
//@pyrule RET :: name_ret(r) :: R17 result named so that the contract can mention it
use vstd::prelude::*;
use std::collections::VecDeque;
verus! {

#[verifier::external_body]
fn vpanic() -> ! { panic!() }

pub enum TryLockError { WouldBlock, Poisoned(u8) }
pub enum TryLockResult<G> { Ok(G), Err(TryLockError) }

// a try_lock on the buffer's mutex either yields exclusive access or reports WouldBlock (nothing is assumed about contention)
#[verifier::external_body]
fn try_lock_buffer<X>(m: &mut X) -> (r: TryLockResult<&mut X>)
    ensures
        r matches TryLockResult::Ok(g) ==> *g == *old(m) && *final(g) == *final(m),
        !(r matches TryLockResult::Ok(_)) ==> (r matches TryLockResult::Err(TryLockError::WouldBlock)) && *final(m) == *old(m),
{ TryLockResult::Ok(m) }
// assumption: try_lock on an uncontended mutex succeeds and yields exclusive access
#[verifier::external_body]
fn try_lock_seq<T>(m: &mut Option<T>) -> (r: TryLockResult<&mut Option<T>>)
    ensures r matches TryLockResult::Ok(g) && *g == *old(m) && *final(g) == *final(m)
{ TryLockResult::Ok(m) }

//@item src=nexosim/src/ports/sink/event_buffer.rs kind=struct name=Inner rules=PUBSTRUCT,ABOOL,MUTEX,PUBFIELDS
pub struct Inner<T> {
    pub capacity: usize,
    pub is_open: bool,
    pub buffer: VecDeque<T>,
}
//@end

//@item src=nexosim/src/ports/sink/event_buffer.rs kind=struct name=EventBuffer rules=PUBSTRUCT,ARC,PUBFIELDS
pub struct EventBuffer<T> {
    pub inner: Inner<T>,
}
//@end

//@item src=nexosim/src/ports/sink/event_buffer.rs kind=struct name=EventBufferWriter rules=PUBSTRUCT,ARC,PUBFIELDS
pub struct EventBufferWriter<T> {
    pub inner: Inner<T>,
}
//@end

// The abstract state of a buffer sink: the retained events, oldest first.
impl<T> Inner<T> {
    pub open spec fn wf(&self) -> bool { self.buffer@.len() <= self.capacity }
}

// what a buffer of capacity `cap` retains after an accepted write
pub open spec fn retained<T>(buf: Seq<T>, cap: nat, e: T) -> Seq<T> {
    if buf.len() < cap { buf.push(e) } else { buf.push(e).subrange(buf.len() + 1 - cap, buf.len() as int + 1) }
}

impl<T> EventBuffer<T> {
//@item src=nexosim/src/ports/sink/event_buffer.rs kind=fn name=with_capacity rules=ARCNEW,ABOOLNEW,MUTEXNEW,RET
    pub fn with_capacity(capacity: usize) -> (r: Self)
        //@[
        ensures r.inner.buffer@ == Seq::<T>::empty(), r.inner.is_open, r.inner.capacity == capacity, r.inner.wf(),
        //@]
    {
        Self {
            inner: (Inner {
                capacity,
                is_open: (true),
                buffer: (VecDeque::new()),
            }),
        }
    }
//@end

//@item src=nexosim/src/ports/sink/event_buffer.rs kind=fn name=with_capacity_closed rules=ARCNEW,ABOOLNEW,MUTEXNEW,RET
    pub fn with_capacity_closed(capacity: usize) -> (r: Self)
        //@[
        ensures r.inner.buffer@ == Seq::<T>::empty(), !r.inner.is_open, r.inner.capacity == capacity, r.inner.wf(),
        //@]
    {
        Self {
            inner: (Inner {
                capacity,
                is_open: (false),
                buffer: (VecDeque::new()),
            }),
        }
    }
//@end

//@item src=nexosim/src/ports/sink/event_buffer.rs kind=fn name=next within=`Iterator for EventBuffer<T>` rules=LOCKEXPR,TRYLOCKBUF,PANIC,SELFITEM,RET
    fn next(&mut self) -> (r: Option<T>)
        //@[
        requires old(self).inner.wf(),
        ensures
            // FIFO: the oldest retained event is yielded and removed, nothing else changes
            old(self).inner.buffer@.len() == 0 ==> r is None && final(self).inner.buffer@ == old(self).inner.buffer@,
            old(self).inner.buffer@.len() > 0 ==> r == Some(old(self).inner.buffer@[0])
                && final(self).inner.buffer@ == old(self).inner.buffer@.drop_first(),
            final(self).inner.is_open == old(self).inner.is_open, final(self).inner.capacity == old(self).inner.capacity,
            final(self).inner.wf(),
        //@]
    {
        self.inner.buffer.pop_front()
    }
//@end

//@item src=nexosim/src/ports/sink/event_buffer.rs kind=fn name=open within=`EventSinkStream for EventBuffer<T>` rules=STORE
    fn open(&mut self)
        //@[
        ensures final(self).inner.is_open, final(self).inner.buffer@ == old(self).inner.buffer@,
            final(self).inner.capacity == old(self).inner.capacity,
        //@]
    {
        self.inner.is_open = true;
    }
//@end

//@item src=nexosim/src/ports/sink/event_buffer.rs kind=fn name=close within=`EventSinkStream for EventBuffer<T>` rules=STORE
    fn close(&mut self)
        //@[
        ensures !final(self).inner.is_open, final(self).inner.buffer@ == old(self).inner.buffer@,
            final(self).inner.capacity == old(self).inner.capacity,
        //@]
    {
        self.inner.is_open = false;
    }
//@end
}

impl<T> EventBufferWriter<T> {
//@item src=nexosim/src/ports/sink/event_buffer.rs kind=fn name=write within=`for EventBufferWriter<T>` rules=MUTSELF,LOAD,LOCKLET,TRYLOCKBUF,PANIC canary=1
    fn write(&mut self, event: T)
        //@[
        requires old(self).inner.wf(),
        ensures
            // a closed sink ignores writes
            !old(self).inner.is_open ==> final(self).inner.buffer@ == old(self).inner.buffer@,  //@ #closed-ignored
            // an open sink retains exactly the most recent `capacity` events, FIFO
            old(self).inner.is_open ==> final(self).inner.buffer@
                == retained(old(self).inner.buffer@, old(self).inner.capacity as nat, event),   //@ #retain-most-recent
            final(self).inner.wf(),                                                            //@ #bounded
            final(self).inner.capacity == old(self).inner.capacity, final(self).inner.is_open == old(self).inner.is_open,
        //@]
    {
        if !self.inner.is_open {
            return;
        }

        let buffer = &mut self.inner.buffer;
        buffer.push_back(event);
        if buffer.len() > self.inner.capacity {
            buffer.pop_front();
        }
    }
//@end
}

// ---------------------------------------------------------------- EventSlot
//@item src=nexosim/src/ports/sink/event_slot.rs kind=struct name=Inner id=SlotInner rules=SLOTINNER,PUBSTRUCT,ABOOL,MUTEX,PUBFIELDS
pub struct SlotInner<T> {
    pub is_open: bool,
    pub slot: Option<T>,
}
//@end

//@item src=nexosim/src/ports/sink/event_slot.rs kind=struct name=EventSlot rules=SLOTINNER,PUBSTRUCT,ARC2,PUBFIELDS
pub struct EventSlot<T> {
    pub inner: SlotInner<T>,
}
//@end

//@item src=nexosim/src/ports/sink/event_slot.rs kind=struct name=EventSlotWriter rules=SLOTINNER,PUBSTRUCT,ARC2,PUBFIELDS
pub struct EventSlotWriter<T> {
    pub inner: SlotInner<T>,
}
//@end

impl<T> EventSlot<T> {
//@item src=nexosim/src/ports/sink/event_slot.rs kind=fn name=new id=EventSlot::new rules=SLOTINNER,ARCNEW,ABOOLNEW,MUTEXNEW,RET
    pub fn new() -> (r: Self)
        //@[
        ensures r.inner.is_open, r.inner.slot is None,
        //@]
    {
        Self {
            inner: (SlotInner {
                is_open: (true),
                slot: (None),
            }),
        }
    }
//@end

//@item src=nexosim/src/ports/sink/event_slot.rs kind=fn name=new_closed id=EventSlot::new_closed rules=SLOTINNER,ARCNEW,ABOOLNEW,MUTEXNEW,RET
    pub fn new_closed() -> (r: Self)
        //@[
        ensures !r.inner.is_open, r.inner.slot is None,
        //@]
    {
        Self {
            inner: (SlotInner {
                is_open: (false),
                slot: (None),
            }),
        }
    }
//@end

//@item src=nexosim/src/ports/sink/event_slot.rs kind=fn name=next id=EventSlot::next within=`Iterator for EventSlot<T>` rules=TRYLOCK,PANIC,SELFITEM,RET
    fn next(&mut self) -> (r: Option<T>)
        //@[
        ensures
            // the most recently written event is yielded once, then nothing until a new write
            r == old(self).inner.slot,                        //@ #slot-yields-last
            final(self).inner.slot is None,                   //@ #slot-cleared
            final(self).inner.is_open == old(self).inner.is_open,
        //@]
    {
        match try_lock_seq(&mut self.inner.slot) {
            TryLockResult::Ok(mut v) => v.take(),
            TryLockResult::Err(TryLockError::WouldBlock) => None,
            TryLockResult::Err(TryLockError::Poisoned(_)) => vpanic(),
        }
    }
//@end

//@item src=nexosim/src/ports/sink/event_slot.rs kind=fn name=open id=EventSlot::open within=`EventSinkStream for EventSlot<T>` rules=STORE
    fn open(&mut self)
        //@[
        ensures final(self).inner.is_open, final(self).inner.slot == old(self).inner.slot,
        //@]
    {
        self.inner.is_open = true;
    }
//@end

//@item src=nexosim/src/ports/sink/event_slot.rs kind=fn name=close id=EventSlot::close within=`EventSinkStream for EventSlot<T>` rules=STORE
    fn close(&mut self)
        //@[
        ensures !final(self).inner.is_open, final(self).inner.slot == old(self).inner.slot,
        //@]
    {
        self.inner.is_open = false;
    }
//@end
}

impl<T> EventSlotWriter<T> {
//@item src=nexosim/src/ports/sink/event_slot.rs kind=fn name=write id=EventSlotWriter::write within=`for EventSlotWriter<T>` rules=MUTSELF,LOAD,TRYLOCK,PANIC
    fn write(&mut self, event: T)
        //@[
        ensures
            !old(self).inner.is_open ==> final(self).inner.slot == old(self).inner.slot,   //@ #slot-closed-ignored
            old(self).inner.is_open ==> final(self).inner.slot == Some(event),             //@ #slot-last-value
            final(self).inner.is_open == old(self).inner.is_open,
        //@]
    {
        // Ignore if the sink is closed.
        if !self.inner.is_open {
            return;
        }

        match try_lock_seq(&mut self.inner.slot) {
            TryLockResult::Ok(mut v) => *v = Some(event),
            TryLockResult::Err(TryLockError::WouldBlock) => {}
            TryLockResult::Err(TryLockError::Poisoned(_)) => vpanic(),
        }
    }
//@end
}

} // verus!
fn main() {}
