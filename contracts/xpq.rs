//@unit xpq
//@exec
//@props C20,C07
// BOUNDED executable stand-in for the two scheduler priority queues (labelled bounded, never counted as proved).
// The REAL text of util/priority_queue.rs and util/indexed_priority_queue.rs (each file whole, up to its test module)
// is cut from /repo on every run with NO rewrite rule and compiled by rustc as it stands (both files depend on std only).
// `main` runs EVERY sequence of operations up to the bound against a reference (a list kept in insertion order) and
// compares every result with the statement of C20: pull/peek yield the smallest key and, among equal keys, the entry
// inserted first; extract(k) removes exactly the entry k was issued for, and returns None - touching nothing - once that
// entry is gone, whatever slot reuse happened in between.
// It decides what the Verus units pq/ipq cannot follow mechanically: a changed representation (fields added or removed).
#![allow(dead_code, unused_imports, unused_variables, unused_mut, unused_macros, unreachable_code)]
use std::collections::BTreeMap;
use std::panic;

mod pq {
//@item src=nexosim/src/util/priority_queue.rs kind=filehead name=priority_queue id=file-priority_queue
//@end
}
mod ipq {
//@item src=nexosim/src/util/indexed_priority_queue.rs kind=filehead name=indexed_priority_queue id=file-indexed_priority_queue
//@end
}

//@include inc/xpq_harness.rs
