#![feature(allocator_api)]
//@unit pq
//@props C20,C07,C01
//@closed src=nexosim/src/util/priority_queue.rs impl=`impl<K: Copy \+ Ord, V> PriorityQueue<K, V>`
//@verus --rlimit 50 --triggers-mode silent
// Unit pq: util/priority_queue.rs whole file (Item::{cmp,partial_cmp,eq}, PriorityQueue::{new,insert,pull,peek}).
// View: the entries in pull order. Contract: ascending key, FIFO among equal keys (C20, C07);
// `insert` is a stable sorted insertion: this is the contract unit sim assumes for its scheduler queue.
//@rule PUBSTRUCT :: ^(\s*)(?:pub(?:\(crate\))? )?struct :: \1pub struct :: R7
//@rule PUBCRATE :: pub\(crate\) fn :: pub fn :: R7
//@rule ASSERTNE :: assert_ne!\(epoch, u64::MAX\); :: if epoch == u64::MAX { vpanic(); } :: R6 panics are divergence
//@rule THENWITH :: \.then_with\(\|\| ([^\n]*)\)\n :: .then_with(|| -> (r: Ordering) { \1 })\n :: R17 typed, braced closure so that it can carry an ensures clause
//@pyrule PUBFIELDS :: pub_fields() :: R7
//@pyrule RET :: name_ret(r) :: R17
use vstd::prelude::*;
use vstd::std_specs::cmp::{PartialOrdSpec, PartialOrdSpecImpl, OrdSpec, OrdSpecImpl, PartialEqSpec, PartialEqSpecImpl};
use std::cmp::Ordering;
use std::collections::BinaryHeap;
verus! {
#[verifier::external_body]
fn vpanic() -> ! { panic!() }

pub open spec fn rev(o: Ordering) -> Ordering { match o { Ordering::Less => Ordering::Greater, Ordering::Equal => Ordering::Equal, Ordering::Greater => Ordering::Less } }
pub assume_specification [std::cmp::Ordering::reverse] (o: Ordering) -> (r: Ordering)
    ensures r == rev(o);
pub assume_specification<F: FnOnce() -> Ordering> [std::cmp::Ordering::then_with] (o: Ordering, f: F) -> (r: Ordering)
    requires o == Ordering::Equal ==> f.requires(()),
    ensures o != Ordering::Equal ==> r == o,
            o == Ordering::Equal ==> f.ensures((), r);

// ---------- assumed contract of std::collections::BinaryHeap ----------
#[verifier::external_type_specification]
#[verifier::external_body]
#[verifier::reject_recursive_types(T)]
#[verifier::reject_recursive_types(A)]
pub struct ExBinaryHeap<T, A: std::alloc::Allocator>(BinaryHeap<T, A>);

/// observational model: the elements in pop order (greatest first w.r.t. `Ord::cmp`)
pub uninterp spec fn heap_seq<T, A: std::alloc::Allocator>(h: &BinaryHeap<T, A>) -> Seq<T>;
pub open spec fn desc<T: Ord>(s: Seq<T>) -> bool {
    forall|i: int, j: int| 0 <= i < j < s.len() ==> OrdSpec::cmp_spec(#[trigger] &s[i], #[trigger] &s[j]) != Ordering::Less
}
pub assume_specification<T> [BinaryHeap::<T>::new] () -> (r: BinaryHeap<T>)
    ensures heap_seq(&r) == Seq::<T>::empty();
pub assume_specification<T: Ord, A: std::alloc::Allocator> [BinaryHeap::<T, A>::push] (h: &mut BinaryHeap<T, A>, x: T)
    requires desc(heap_seq(old(h)))
    ensures desc(heap_seq(final(h))),
        exists|p: int| 0 <= p <= heap_seq(old(h)).len() && heap_seq(final(h)) == #[trigger] heap_seq(old(h)).insert(p, x);
pub assume_specification<T: Ord, A: std::alloc::Allocator> [BinaryHeap::<T, A>::pop] (h: &mut BinaryHeap<T, A>) -> (r: Option<T>)
    ensures
        heap_seq(old(h)).len() == 0 ==> r is None && heap_seq(final(h)) == heap_seq(old(h)),
        heap_seq(old(h)).len() > 0 ==> r == Some(heap_seq(old(h))[0]) && heap_seq(final(h)) == heap_seq(old(h)).drop_first();
pub assume_specification<T, A: std::alloc::Allocator> [BinaryHeap::<T, A>::peek] (h: &BinaryHeap<T, A>) -> (r: Option<&T>)
    ensures
        heap_seq(h).len() == 0 ==> r is None,
        heap_seq(h).len() > 0 ==> r == Some(&heap_seq(h)[0]);

//@item src=nexosim/src/util/priority_queue.rs kind=struct name=Item rules=PUBSTRUCT,PUBFIELDS
pub struct Item<K, V>
where
    K: Ord,
{
    pub key: K,
    pub value: V,
    pub epoch: u64,
}
//@end

pub open spec fn ucmp(a: u64, b: u64) -> Ordering { if a < b { Ordering::Less } else if a == b { Ordering::Equal } else { Ordering::Greater } }
pub open spec fn item_cmp<K: Ord, V>(a: &Item<K, V>, b: &Item<K, V>) -> Ordering {
    rev(match OrdSpec::cmp_spec(&a.key, &b.key) { Ordering::Equal => ucmp(a.epoch, b.epoch), o => o })
}
impl<K: Ord, V> OrdSpecImpl for Item<K, V> {
    open spec fn obeys_cmp_spec() -> bool { K::obeys_cmp_spec() }
    open spec fn cmp_spec(&self, other: &Self) -> Ordering { item_cmp(self, other) }
}
impl<K: Ord, V> PartialOrdSpecImpl for Item<K, V> {
    open spec fn obeys_partial_cmp_spec() -> bool { K::obeys_cmp_spec() }
    open spec fn partial_cmp_spec(&self, other: &Self) -> Option<Ordering> { Some(item_cmp(self, other)) }
}
impl<K: Ord, V> PartialEqSpecImpl for Item<K, V> {
    open spec fn obeys_eq_spec() -> bool { K::obeys_eq_spec() }
    open spec fn eq_spec(&self, other: &Self) -> bool { PartialEqSpec::eq_spec(&self.key, &other.key) && self.epoch == other.epoch }
}

impl<K, V> Ord for Item<K, V>
where
    K: Ord,
{
//@item src=nexosim/src/util/priority_queue.rs kind=fn name=cmp within=`Ord for Item<K, V>` rules=THENWITH
    fn cmp(&self, other: &Self) -> Ordering {
        self.key
            .cmp(&other.key)
            .then_with(|| -> (r: Ordering)
                ensures r == ucmp(self.epoch, other.epoch)   //@ C20,C07 #ties-broken-by-insertion-epoch
                { self.epoch.cmp(&other.epoch) })
            .reverse()
    }
//@end
}

impl<K, V> PartialOrd for Item<K, V>
where
    K: Ord,
{
//@item src=nexosim/src/util/priority_queue.rs kind=fn name=partial_cmp within=`PartialOrd for Item<K, V>`
    fn partial_cmp(&self, other: &Self) -> Option<Ordering> {
        Some(self.cmp(other))
    }
//@end
}

impl<K, V> Eq for Item<K, V> where K: Ord {}

impl<K, V> PartialEq for Item<K, V>
where
    K: Ord,
{
//@item src=nexosim/src/util/priority_queue.rs kind=fn name=eq within=`PartialEq for Item<K, V>`
    fn eq(&self, other: &Self) -> bool {
        (self.key == other.key) && (self.epoch == other.epoch)
    }
//@end
}
#[verifier::reject_recursive_types(K)]
#[verifier::reject_recursive_types(V)]
//@item src=nexosim/src/util/priority_queue.rs kind=struct name=PriorityQueue rules=PUBSTRUCT,PUBFIELDS
pub struct PriorityQueue<K, V>
where
    K: Ord,
{
    pub heap: BinaryHeap<Item<K, V>>,
    pub next_epoch: u64,
}
//@end

// ---------- order on keys: assumption "K's Ord is a total preorder obeying its spec" ----------
pub open spec fn kc<K: Ord>(a: K, b: K) -> Ordering { OrdSpec::cmp_spec(&a, &b) }
pub open spec fn kle<K: Ord>(a: K, b: K) -> bool { kc(a, b) != Ordering::Greater }
pub open spec fn total_cmp<K: Ord>() -> bool {
    &&& K::obeys_cmp_spec()
    &&& forall|a: K| #[trigger] kc(a, a) == Ordering::Equal
    &&& forall|a: K, b: K| (#[trigger] kc(a, b) == Ordering::Less) == (kc(b, a) == Ordering::Greater)
    &&& forall|a: K, b: K| (#[trigger] kc(a, b) == Ordering::Equal) == (kc(b, a) == Ordering::Equal)
    &&& forall|a: K, b: K, c: K| #[trigger] kle(a, b) && #[trigger] kle(b, c) ==> kle(a, c)
}

impl<K: Copy + Ord, V> PriorityQueue<K, V> {
    /// the entries in pull order
    pub open spec fn view(&self) -> Seq<Item<K, V>> { heap_seq(&self.heap) }
    pub open spec fn wf(&self) -> bool {
        &&& desc(self.view())
        &&& forall|i: int| 0 <= i < self.view().len() ==> (#[trigger] self.view()[i]).epoch < self.next_epoch
    }
    /// pull order is ascending in key, and FIFO (ascending epoch) among equal keys
    pub open spec fn asc(s: Seq<Item<K, V>>) -> bool {
        forall|i: int, j: int| 0 <= i < j < s.len() ==>
            kc((#[trigger] s[i]).key, (#[trigger] s[j]).key) == Ordering::Less
            || (kc(s[i].key, s[j].key) == Ordering::Equal && s[i].epoch <= s[j].epoch)
    }
    pub proof fn lemma_desc_is_asc(s: Seq<Item<K, V>>)
        requires total_cmp::<K>(), desc(s)
        ensures Self::asc(s)
    {
        assert forall|i: int, j: int| 0 <= i < j < s.len() implies
            kc((#[trigger] s[i]).key, (#[trigger] s[j]).key) == Ordering::Less
            || (kc(s[i].key, s[j].key) == Ordering::Equal && s[i].epoch <= s[j].epoch) by {
            assert(OrdSpec::cmp_spec(&s[i], &s[j]) != Ordering::Less);
            assert(item_cmp(&s[i], &s[j]) != Ordering::Less);
        }
    }
}

impl<K: Copy + Ord, V> PriorityQueue<K, V> {
//@item src=nexosim/src/util/priority_queue.rs kind=fn name=new within=`impl<K: Copy \+ Ord, V> PriorityQueue<K, V>` rules=PUBCRATE,RET
    pub fn new() -> (r: Self)
        //@[
        ensures r.wf(), r.view().len() == 0
        //@]
    {
        Self {
            heap: BinaryHeap::new(),
            next_epoch: 0,
        }
    }
//@end

//@item src=nexosim/src/util/priority_queue.rs kind=fn name=insert within=`impl<K: Copy \+ Ord, V> PriorityQueue<K, V>` rules=PUBCRATE,ASSERTNE canary=1
    pub fn insert(&mut self, key: K, value: V)
        //@[
        requires total_cmp::<K>(), old(self).wf(),
        ensures
            final(self).wf(), final(self).next_epoch == old(self).next_epoch + 1,                 //@ #epochs-strictly-increase
            // stable insertion: after every entry with key <= `key`, before every entry with a larger key
            exists|p: int| 0 <= p <= old(self).view().len()                                       //@ C20,C07,C01 #stable-sorted-insertion
                && final(self).view() == #[trigger] old(self).view().insert(p, Item { key, value, epoch: old(self).next_epoch })   //@ C20,C07,C01 #stable-sorted-insertion
                && (forall|i: int| 0 <= i < p ==> kle((#[trigger] old(self).view()[i]).key, key))                               //@ C20,C07,C01 #stable-sorted-insertion
                && (forall|i: int| p <= i < old(self).view().len() ==> !kle((#[trigger] old(self).view()[i]).key, key)),          //@ C20,C07,C01 #stable-sorted-insertion
        //@]
    {
        // Build an element from the user-provided key-value and a unique epoch.
        let epoch = self.next_epoch;
        if epoch == u64::MAX { vpanic(); }
        self.next_epoch += 1;
        let item = Item { key, value, epoch };
        //@[
        let ghost s0 = self.view();
        let ghost it = item;
        //@]
        self.heap.push(item);
        //@[
        proof {
            let s1 = self.view();
            let p = choose|p: int| 0 <= p <= s0.len() && s1 == #[trigger] s0.insert(p, it);
            Self::lemma_desc_is_asc(s1);
            assert forall|i: int| 0 <= i < s1.len() implies (#[trigger] s1[i]).epoch < self.next_epoch by {
                if i < p { assert(s1[i] == s0[i]); } else if i > p { assert(s1[i] == s0[i - 1]); }
            }
            assert forall|i: int| 0 <= i < p implies kle((#[trigger] s0[i]).key, key) by {
                assert(s1[i] == s0[i]); assert(s1[p] == it);
            }
            assert forall|i: int| p <= i < s0.len() implies !kle((#[trigger] s0[i]).key, key) by {
                assert(s1[i + 1] == s0[i]); assert(s1[p] == it);
                // asc(s1) at (p, i+1): key < s0[i].key, or equal keys and epoch_new <= s0[i].epoch (impossible)
                assert(s0[i].epoch < it.epoch);
            }
        }
        //@]
    }
//@end

//@item src=nexosim/src/util/priority_queue.rs kind=fn name=pull within=`impl<K: Copy \+ Ord, V> PriorityQueue<K, V>` rules=PUBCRATE,RET
    pub fn pull(&mut self) -> (r: Option<(K, V)>)
        //@[
        requires total_cmp::<K>(), old(self).wf(),
        ensures
            final(self).wf(), final(self).next_epoch == old(self).next_epoch,
            old(self).view().len() == 0 ==> r is None && final(self).view() == old(self).view(),                 //@ C20 #pull-empty
            old(self).view().len() > 0 ==> r == Some((old(self).view()[0].key, old(self).view()[0].value))       //@ C20,C07,C01 #pull-yields-the-head
                && final(self).view() == old(self).view().drop_first(),                                          //@ C20,C07,C01 #pull-yields-the-head
        //@]
    {
        let ghost s0 = self.view();   //@
        let Item { key, value, .. } = self.heap.pop()?;
        //@[
        proof {
            let s1 = self.view();
            assert forall|i: int, j: int| 0 <= i < j < s1.len() implies OrdSpec::cmp_spec(#[trigger] &s1[i], #[trigger] &s1[j]) != Ordering::Less by {
                assert(s1[i] == s0[i + 1]); assert(s1[j] == s0[j + 1]);
            }
            assert forall|i: int| 0 <= i < s1.len() implies (#[trigger] s1[i]).epoch < self.next_epoch by { assert(s1[i] == s0[i + 1]); }
        }
        //@]

        Some((key, value))
    }
//@end

//@item src=nexosim/src/util/priority_queue.rs kind=fn name=peek within=`impl<K: Copy \+ Ord, V> PriorityQueue<K, V>` rules=PUBCRATE,RET
    pub fn peek(&self) -> (r: Option<(&K, &V)>)
        //@[
        ensures
            self.view().len() == 0 ==> r is None,                                                                //@ C20 #peek-empty
            self.view().len() > 0 ==> r is Some && *r.unwrap().0 == self.view()[0].key && *r.unwrap().1 == self.view()[0].value,   //@ C20,C07,C01 #peek-shows-the-head
        //@]
    {
        let Item {
            ref key, ref value, ..
        } = self.heap.peek()?;

        Some((key, value))
    }
//@end
}

// The view is in pull order; wf() (maintained by every operation) makes it ascending in key and FIFO among equal keys:
// this is C20's first sentence for every history of inserts and pulls.
pub proof fn lemma_pull_order<K: Copy + Ord, V>(q: PriorityQueue<K, V>)
    requires total_cmp::<K>(), q.wf()
    ensures PriorityQueue::<K, V>::asc(q.view())
{
    PriorityQueue::<K, V>::lemma_desc_is_asc(q.view());
}

} // verus!
fn main() {}
