//@unit reg
//@props C06,C11,C16
//@verus --rlimit 100 --triggers-mode silent
// Unit reg: model registration bookkeeping: simulation::add_model, BuildContext::{new, add_submodel}, SimInit::add_model
// (simulation.rs, model/context.rs, simulation/sim_init.rs). C06: every model that belongs to the simulation - sub-models
// included, to any depth - has exactly one mailbox observer registered under its qualified name. C11: the ModelId given to a
// model's task indexes that model's own qualified name. C16 (third sentence): the name carried by a model's Context
// (Task.name is the name of the Context handed to the model task) is its qualified name parent.child, and it is the name
// under which the model appears in error reports (model_names[id], observers).
//@rule SIMPATH :: simulation::add_model\( :: add_model( :: R7 module path of the single-file unit
//@rule PUBSTRUCT :: ^(\s*)(?:pub(?:\(crate\))? )?struct :: \1pub struct :: R7
//@rule PUBCRATE :: pub\(crate\) fn :: pub fn :: R7
//@rule TRACING1 :: \n\s*#\[cfg\(feature = "tracing"\)\]\n[^\n]*; ::  :: R7 statements compiled only with feature "tracing" (off) dropped
//@rule TRACING2 :: \n\s*#\[cfg\(not\(feature = "tracing"\)\)\] ::  :: R7 feature "tracing" off
//@rule EXECPARAM :: executor: &Executor :: executor: &mut Executor :: R2 executor handle made exclusive so that it can carry the ghost task log
//@rule EXECFIELD :: executor: &'a Executor :: executor: &'a mut Executor :: R2
//@rule EXECARG :: &self\.executor, :: &mut self.executor, :: R2
//@rule OBSBOX :: Box::new\(mailbox\.0\.observer\(\)\) :: mailbox.observer() :: R2 boxed trait object as an abstract stub type
//@rule OBSTYPE :: Box<dyn ChannelObserver> :: ObserverBox :: R2
//@rule RECEIVER :: let mut receiver = mailbox\.0; :: let mut receiver = mailbox.into_receiver(); :: R7 tuple-struct field of a stub type
//@rule CONCAT :: self\.name\.to_string\(\) \+ "\." \+ &submodel_name :: str_concat3(self.name, ".", &submodel_name) :: R16 String + &str crashes Verus
//@rule STRFROM :: String::from\("<unknown>"\) :: string_from_lit("<unknown>") :: R16 String::from(&str) through a specified stub (assume_specification cannot match its signature)
//@rule INTONAME :: name: impl Into<String>, :: name: N, :: R14 impl-Trait argument as a named generic
//@rule GENERICN :: <(P|S): ProtoModel>\( :: <\1: ProtoModel, N: Into<String>>( :: R14
//@pyrule PUBFIELDS :: pub_fields() :: R7
//@pyrule RET :: name_ret(r) :: R17
//@pyrule MUTSELFP :: mut_self_param() :: R14 `mut self` parameter desugared
//@pyrule ASYNC :: abstract_async_block(fut ;; model_loop_future(model, receiver, cx, abort_signal)) :: R8 the async model loop is not expressible in Verus
use vstd::prelude::*;
verus! {

#[verifier::external_body]
fn vpanic() -> ! { panic!() }

// ---------- stubs ----------
#[verifier::external_body]
pub struct Executor { x: u8 }
#[verifier::external_body]
pub struct Signal { x: u8 }
#[verifier::external_body]
pub struct GlobalScheduler { x: u8 }
#[verifier::external_body]
pub struct ObserverBox { x: u8 }
#[verifier::external_body]
pub struct SchedulerQueueHandle { x: u8 }
#[verifier::external_body]
pub struct AtomicTime { x: u8 }
#[verifier::external_body]
pub struct AtomicTimeReader { x: u8 }
#[verifier::external_body]
#[verifier::reject_recursive_types(M)]
pub struct Mailbox<M> { x: core::marker::PhantomData<M> }
#[verifier::external_body]
#[verifier::reject_recursive_types(M)]
pub struct Address<M> { x: core::marker::PhantomData<M> }
#[verifier::external_body]
#[verifier::reject_recursive_types(M)]
pub struct Receiver<M> { x: core::marker::PhantomData<M> }
#[verifier::external_body]
#[verifier::reject_recursive_types(M)]
pub struct Context<M> { x: core::marker::PhantomData<M> }
#[verifier::external_body]
pub struct LoopFuture { x: u8 }
#[verifier::external_body]
pub struct ModelFuture { x: u8 }

pub struct ModelId(pub usize);
impl ModelId {
    // proved in unit sim
    #[verifier::external_body]
    pub fn new(id: usize) -> (r: Self) ensures r.0 == id { unimplemented!() }
}

// what the executor knows about a spawned model task
pub struct Task { pub id: usize, pub name: Seq<char>, pub mbox: int }

impl ObserverBox { pub uninterp spec fn mbox(&self) -> int; }
impl<M> Mailbox<M> {
    pub uninterp spec fn id(&self) -> int;
    #[verifier::external_body]
    pub fn observer(&self) -> (o: ObserverBox) ensures o.mbox() == self.id() { unimplemented!() }
    #[verifier::external_body]
    pub fn address(&self) -> (a: Address<M>) { unimplemented!() }
    #[verifier::external_body]
    pub fn into_receiver(self) -> (r: Receiver<M>) ensures r.mbox() == self.id() { unimplemented!() }
}
impl<M> Receiver<M> { pub uninterp spec fn mbox(&self) -> int; }
impl<M> Context<M> {
    pub uninterp spec fn name(&self) -> Seq<char>;
    #[verifier::external_body]
    pub fn new(name: String, scheduler: GlobalScheduler, address: Address<M>) -> (r: Self) ensures r.name() == name@ { unimplemented!() }
}
impl LoopFuture { pub uninterp spec fn name(&self) -> Seq<char>; pub uninterp spec fn mbox(&self) -> int; }
// the `async move { init; loop { recv } }` block of add_model: runs `model` on `receiver` under the context `cx`
#[verifier::external_body]
fn model_loop_future<Mo, M>(model: Mo, receiver: Receiver<M>, cx: Context<M>, abort_signal: Signal) -> (f: LoopFuture)
    ensures f.name() == cx.name(), f.mbox() == receiver.mbox()
{ unimplemented!() }
impl ModelFuture {
    pub uninterp spec fn task(&self) -> Task;
    #[verifier::external_body]
    pub fn new(fut: LoopFuture, id: ModelId) -> (r: Self)
        ensures r.task() == (Task { id: id.0, name: fut.name(), mbox: fut.mbox() })
    { unimplemented!() }
}
impl Executor {
    pub uninterp spec fn tasks(&self) -> Seq<Task>;
    #[verifier::external_body]
    pub fn spawn_and_forget(&mut self, f: ModelFuture) ensures final(self).tasks() == old(self).tasks().push(f.task()) { unimplemented!() }
}
impl Signal { #[verifier::external_body] pub fn clone(&self) -> (r: Self) { unimplemented!() } }
impl GlobalScheduler {
    #[verifier::external_body] pub fn clone(&self) -> (r: Self) { unimplemented!() }
    #[verifier::external_body] pub fn new(q: SchedulerQueueHandle, t: AtomicTimeReader) -> (r: Self) { unimplemented!() }
}
impl SchedulerQueueHandle { #[verifier::external_body] pub fn clone(&self) -> (r: Self) { unimplemented!() } }
impl AtomicTime { #[verifier::external_body] pub fn reader(&self) -> (r: AtomicTimeReader) { unimplemented!() } }
#[verifier::external_body]
fn string_from_lit(s: &str) -> (r: String) ensures r@ == s@ { unimplemented!() }
#[verifier::external_body]
fn str_concat3(a: &String, b: &str, c: &String) -> (r: String) ensures r@ == a@ + b@ + c@ { unimplemented!() }

pub trait Model: Sized {}

// ---------- the registries and what "registered" means ----------
pub open spec fn is_prefix<T>(a: Seq<T>, b: Seq<T>) -> bool { a.len() <= b.len() && b.subrange(0, a.len() as int) == a }

// task t is correctly registered in (names, obs): its id indexes its own name, and an observer of its mailbox is
// registered under that name
pub open spec fn task_ok(t: Task, names: Seq<String>, obs: Seq<(String, ObserverBox)>, names_from: int, obs_from: int) -> bool {
    &&& 0 <= names_from <= t.id < names.len() && names[t.id as int]@ == t.name                                  // C11
    &&& exists|j: int| 0 <= j && obs_from <= j < obs.len() && (#[trigger] obs[j]).0@ == t.name && obs[j].1.mbox() == t.mbox   // C06
}
// the two registries and the executor's task list grew by the same number of entries, old entries untouched, and every
// new task is correctly registered among the new entries
pub open spec fn lockstep(o_names: Seq<String>, o_obs: Seq<(String, ObserverBox)>, o_tasks: Seq<Task>,
                          f_names: Seq<String>, f_obs: Seq<(String, ObserverBox)>, f_tasks: Seq<Task>) -> bool {
    &&& is_prefix(o_names, f_names) && is_prefix(o_obs, f_obs) && is_prefix(o_tasks, f_tasks)
    &&& f_names.len() - o_names.len() == f_tasks.len() - o_tasks.len()
    &&& f_obs.len() - o_obs.len() == f_tasks.len() - o_tasks.len()
    &&& forall|k: int| o_tasks.len() <= k < f_tasks.len() ==> task_ok(#[trigger] f_tasks[k], f_names, f_obs, o_names.len() as int, o_obs.len() as int)
}
pub proof fn lemma_lockstep_refl(n: Seq<String>, o: Seq<(String, ObserverBox)>, t: Seq<Task>)
    ensures lockstep(n, o, t, n, o, t)
{
    assert(n.subrange(0, n.len() as int) == n); assert(o.subrange(0, o.len() as int) == o); assert(t.subrange(0, t.len() as int) == t);
}
pub proof fn lemma_prefix_trans<T>(a: Seq<T>, b: Seq<T>, c: Seq<T>)
    requires is_prefix(a, b), is_prefix(b, c)
    ensures is_prefix(a, c)
{
    assert(c.subrange(0, a.len() as int) =~= a) by {
        assert forall|i: int| 0 <= i < a.len() implies c.subrange(0, a.len() as int)[i] == a[i] by {
            assert(b.subrange(0, a.len() as int)[i] == a[i]);
            assert(c.subrange(0, b.len() as int)[i] == b[i]);
        }
    }
}
pub proof fn lemma_task_ok_mono(t: Task, n1: Seq<String>, o1: Seq<(String, ObserverBox)>, n2: Seq<String>, o2: Seq<(String, ObserverBox)>,
                                nf1: int, of1: int, nf2: int, of2: int)
    requires task_ok(t, n1, o1, nf1, of1), is_prefix(n1, n2), is_prefix(o1, o2), 0 <= nf2 <= nf1, of2 <= of1
    ensures task_ok(t, n2, o2, nf2, of2)
{
    assert(n2.subrange(0, n1.len() as int)[t.id as int] == n1[t.id as int]);
    let j = choose|j: int| 0 <= j && of1 <= j < o1.len() && (#[trigger] o1[j]).0@ == t.name && o1[j].1.mbox() == t.mbox;
    assert(o2.subrange(0, o1.len() as int)[j] == o2[j]);
    assert(o2[j] == o1[j]);
}
pub proof fn lemma_lockstep_trans(n0: Seq<String>, o0: Seq<(String, ObserverBox)>, t0: Seq<Task>,
                                  n1: Seq<String>, o1: Seq<(String, ObserverBox)>, t1: Seq<Task>,
                                  n2: Seq<String>, o2: Seq<(String, ObserverBox)>, t2: Seq<Task>)
    requires lockstep(n0, o0, t0, n1, o1, t1), lockstep(n1, o1, t1, n2, o2, t2)
    ensures lockstep(n0, o0, t0, n2, o2, t2)
{
    lemma_prefix_trans(n0, n1, n2); lemma_prefix_trans(o0, o1, o2); lemma_prefix_trans(t0, t1, t2);
    assert forall|k: int| t0.len() <= k < t2.len() implies task_ok(#[trigger] t2[k], n2, o2, n0.len() as int, o0.len() as int) by {
        if k < t1.len() {
            assert(t2.subrange(0, t1.len() as int)[k] == t1[k]);
            lemma_task_ok_mono(t1[k], n1, o1, n2, o2, n0.len() as int, o0.len() as int, n0.len() as int, o0.len() as int);
        } else {
            assert(n2.subrange(0, n2.len() as int) == n2); assert(o2.subrange(0, o2.len() as int) == o2);
            lemma_task_ok_mono(t2[k], n2, o2, n2, o2, n1.len() as int, o1.len() as int, n0.len() as int, o0.len() as int);
        }
    }
}

// ProtoModel::build may register sub-models, to any depth, only through BuildContext::add_submodel (the registries are
// private fields of BuildContext): ASSUMPTION on every implementation, justified by add_submodel's proved contract and
// the reflexivity / transitivity of `lockstep` (lemmas above).
pub trait ProtoModel: Sized {
    type Model: Model;
    fn build(self, cx: &mut BuildContext<Self>) -> (m: Self::Model)
        ensures
            lockstep(old(cx).model_names@, old(cx).observers@, old(cx).executor.tasks(),
                     final(cx).model_names@, final(cx).observers@, final(cx).executor.tasks()),
            final(cx).name == old(cx).name,
            // the borrowed registries are the same objects afterwards (prophecy frame of the three `&mut` fields)
            *final(final(cx).model_names) == *final(old(cx).model_names),
            *final(final(cx).observers) == *final(old(cx).observers),
            *final(final(cx).executor) == *final(old(cx).executor);
}

//@item src=nexosim/src/model/context.rs kind=struct name=BuildContext rules=PUBSTRUCT,EXECFIELD,OBSTYPE,PUBFIELDS
pub struct BuildContext<'a, P: ProtoModel> {
    pub mailbox: &'a Mailbox<P::Model>,
    pub name: &'a String,
    pub scheduler: &'a GlobalScheduler,
    pub executor: &'a mut Executor,
    pub abort_signal: &'a Signal,
    pub model_names: &'a mut Vec<String>,
    pub observers: &'a mut Vec<(String, ObserverBox)>,
}
//@end

pub open spec fn qualified(parent: Seq<char>, child: Seq<char>) -> Seq<char> {
    parent + "."@ + (if child.len() == 0 { "<unknown>"@ } else { child })
}

impl<'a, P: ProtoModel> BuildContext<'a, P> {
//@item src=nexosim/src/model/context.rs kind=fn name=new within=`impl<'a, P: ProtoModel> BuildContext<'a, P>` id=BuildContext::new rules=PUBCRATE,EXECFIELD,OBSTYPE,RET
    pub fn new(
        mailbox: &'a Mailbox<P::Model>,
        name: &'a String,
        scheduler: &'a GlobalScheduler,
        executor: &'a mut Executor,
        abort_signal: &'a Signal,
        model_names: &'a mut Vec<String>,
        observers: &'a mut Vec<(String, ObserverBox)>,
    ) -> (r: Self)
        //@[
        ensures
            r.name == name,
            r.model_names@ == old(model_names)@, *final(model_names) == *final(r.model_names),
            r.observers@ == old(observers)@, *final(observers) == *final(r.observers),
            r.executor.tasks() == old(executor).tasks(), *final(executor) == *final(r.executor),
        //@]
    {
        Self {
            mailbox,
            name,
            scheduler,
            executor,
            abort_signal,
            model_names,
            observers,
        }
    }
//@end

//@item src=nexosim/src/model/context.rs kind=fn name=add_submodel within=`impl<'a, P: ProtoModel> BuildContext<'a, P>` rules=INTONAME,GENERICN,CONCAT,SIMPATH,STRFROM
    pub fn add_submodel<S: ProtoModel, N: Into<String>>(
        &mut self,
        model: S,
        mailbox: Mailbox<S::Model>,
        name: N,
    )
        //@[
        requires
            old(self).model_names@.len() < usize::MAX - 1,
        ensures
            // the sub-model, and its own sub-models, are registered like every other model ...
            lockstep(old(self).model_names@, old(self).observers@, old(self).executor.tasks(),                //@ C06,C11,C16 #submodels-registered-in-lockstep
                     final(self).model_names@, final(self).observers@, final(self).executor.tasks()),         //@ C06,C11,C16 #submodels-registered-in-lockstep
            final(self).executor.tasks().len() > old(self).executor.tasks().len(),                            //@ C06 #submodel-registered
            final(self).name == old(self).name,
            *final(final(self).model_names) == *final(old(self).model_names),
            *final(final(self).observers) == *final(old(self).observers),
            *final(final(self).executor) == *final(old(self).executor),
            // ... under the name parent.child
            exists|nm: Seq<char>| final(self).executor.tasks().last().name == #[trigger] qualified(old(self).name@, nm),   //@ C06,C11,C16 #submodel-qualified-name
        //@]
    {
        let mut submodel_name = name.into();
        let ghost given = submodel_name@;      //@
        if submodel_name.is_empty() {
            submodel_name = string_from_lit("<unknown>");
        };
        submodel_name = str_concat3(self.name, ".", &submodel_name);
        proof { assert(submodel_name@ == qualified(self.name@, given)); }     //@ C06,C11,C16 #submodel-qualified-name

        add_model(
            model,
            mailbox,
            submodel_name,
            self.scheduler.clone(),
            self.executor,
            self.abort_signal,
            self.model_names,
            self.observers,
        );
    }
//@end
}

//@item src=nexosim/src/simulation.rs kind=fn name=add_model rules=PUBCRATE,TRACING1,TRACING2,EXECPARAM,OBSTYPE,OBSBOX,RECEIVER,ASYNC canary=1
pub fn add_model<P: ProtoModel>(
    model: P,
    mailbox: Mailbox<P::Model>,
    name: String,
    scheduler: GlobalScheduler,
    executor: &mut Executor,
    abort_signal: &Signal,
    model_names: &mut Vec<String>,
    observers: &mut Vec<(String, ObserverBox)>,
)
    //@[
    requires
        old(model_names)@.len() < usize::MAX - 1,
    ensures
        // C06 + C11: this model and every sub-model it builds get exactly one observer and one name each,
        // the observer watches that model's mailbox under that model's name, and the model's id indexes its name
        lockstep(old(model_names)@, old(observers)@, old(executor).tasks(),                               //@ C06,C11,C16 #registered-in-lockstep
                 final(model_names)@, final(observers)@, final(executor).tasks()),                        //@ C06,C11,C16 #registered-in-lockstep
        // the model itself is the last task spawned, under the given name, on the given mailbox
        final(executor).tasks().len() > old(executor).tasks().len(),                                      //@ C06 #model-registered
        final(executor).tasks().last().name == name@,                                                     //@ C06,C11,C16 #model-registered-under-its-name
        final(executor).tasks().last().mbox == mailbox.id(),                                              //@ C06 #observer-watches-the-models-mailbox
    //@]
{

    // Make the mailbox known to the deadlock detection. This must be done for
    // sub-models too, so it is done here rather than in `SimInit::add_model`.
    //@[
    let ghost n0 = model_names@;
    let ghost o0 = observers@;
    let ghost t0 = executor.tasks();
    //@]
    observers.push((name.clone(), mailbox.observer()));
    let ghost o1 = observers@;     //@

    let mut build_cx = BuildContext::new(
        &mailbox,
        &name,
        &scheduler,
        executor,
        abort_signal,
        model_names,
        observers,
    );
    let model = model.build(&mut build_cx);
    //@[
    let ghost n2 = model_names@;
    let ghost o2 = observers@;
    let ghost t2 = executor.tasks();
    //@]

    let address = mailbox.address();
    let mut receiver = mailbox.into_receiver();
    let abort_signal = abort_signal.clone();
    let mut cx = Context::new(name.clone(), scheduler, address);
    proof { assert(cx.name() == name@); }                       //@ C16 #context-carries-the-registered-name
    let fut = model_loop_future(model, receiver, cx, abort_signal);

    let model_id = ModelId::new(model_names.len());
    model_names.push(name);
    let fut = ModelFuture::new(fut, model_id);

    executor.spawn_and_forget(fut);
    //@[
    proof {
        let n3 = model_names@; let o3 = observers@; let t3 = executor.tasks();
        assert(lockstep(n0, o1, t0, n2, o2, t2));
        assert(is_prefix(o0, o1)) by { assert(o1.subrange(0, o0.len() as int) =~= o0); }
        lemma_prefix_trans(o0, o1, o2);
        assert(is_prefix(n2, n3)) by { assert(n3.subrange(0, n2.len() as int) =~= n2); }
        lemma_prefix_trans(n0, n2, n3);
        assert(is_prefix(t2, t3)) by { assert(t3.subrange(0, t2.len() as int) =~= t2); }
        lemma_prefix_trans(t0, t2, t3);
        assert(o3 == o2);
        assert(o3.subrange(0, o2.len() as int) == o2);
        assert forall|k: int| t0.len() <= k < t3.len() implies task_ok(#[trigger] t3[k], n3, o3, n0.len() as int, o0.len() as int) by {
            if k < t2.len() {
                assert(t3[k] == t2[k]);
                lemma_task_ok_mono(t2[k], n2, o2, n3, o3, n0.len() as int, o1.len() as int, n0.len() as int, o0.len() as int);
            } else {
                // this model: id = n2.len(), name = `name`, observer = o1.last() at index o0.len()
                assert(o2.subrange(0, o1.len() as int)[o0.len() as int] == o1[o0.len() as int]);
                assert(o3[o0.len() as int].0@ == name@ && o3[o0.len() as int].1.mbox() == mailbox.id());
            }
        }
    }
    //@]
}
//@end

// ---------- SimInit ----------
pub struct SimInit {
    pub executor: Executor,
    pub scheduler_queue: SchedulerQueueHandle,
    pub time: AtomicTime,
    pub observers: Vec<(String, ObserverBox)>,
    pub abort_signal: Signal,
    pub model_names: Vec<String>,
}
impl SimInit {
    // every model task is registered: one observer and one name per task, all consistent
    pub open spec fn registered(&self) -> bool {
        lockstep(Seq::<String>::empty(), Seq::<(String, ObserverBox)>::empty(), Seq::<Task>::empty(),
                 self.model_names@, self.observers@, self.executor.tasks())
    }
//@item src=nexosim/src/simulation/sim_init.rs kind=fn name=add_model within=`impl SimInit` id=SimInit::add_model rules=INTONAME,GENERICN,EXECARG,STRFROM,RET,MUTSELFP
    pub fn add_model<P: ProtoModel, N: Into<String>>(
        self,
        model: P,
        mailbox: Mailbox<P::Model>,
        name: N,
    ) -> (r: Self)
        //@[
        requires
            self.registered(), self.model_names@.len() < usize::MAX - 1,
        ensures
            // C06: the observers are exactly the mailboxes of the models that belong to the simulation
            r.registered(),                                                                   //@ C06,C11,C16 #all-models-registered
            r.observers@.len() == r.model_names@.len() && r.observers@.len() == r.executor.tasks().len(),   //@ C06 #one-observer-per-model
            r.executor.tasks().len() > self.executor.tasks().len(),
            r.executor.tasks().last().mbox == mailbox.id(),                                   //@ C06 #observer-watches-the-models-mailbox
        //@]
    {
        let mut self_ = self;
        let mut name = name.into();
        if name.is_empty() {
            name = string_from_lit("<unknown>");
        };
        let scheduler = GlobalScheduler::new(self_.scheduler_queue.clone(), self_.time.reader());
        //@[
        let ghost n0 = self_.model_names@; let ghost o0 = self_.observers@; let ghost t0 = self_.executor.tasks();
        //@]

        add_model(
            model,
            mailbox,
            name,
            scheduler,
            &mut self_.executor,
            &self_.abort_signal,
            &mut self_.model_names,
            &mut self_.observers,
        );
        //@[
        proof {
            lemma_lockstep_trans(Seq::<String>::empty(), Seq::<(String, ObserverBox)>::empty(), Seq::<Task>::empty(),
                n0, o0, t0, self_.model_names@, self_.observers@, self_.executor.tasks());
        }
        //@]

        self_
    }
//@end
}

} // verus!
fn main() {}
