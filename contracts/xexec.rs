//@unit xexec
//@exec
//@props C06,C11
// BOUNDED executable stand-in for what the SINGLE-THREADED executor reports at the end of a run (labelled bounded, never
// counted as proved): the REAL text of `ExecutorInner::run`, `ExecutorInner`, its `Drop`, `ExecutorContext` (+ `new`) of
// executor/st_executor.rs, the `ExecutorError` enum of executor.rs, `ModelId` of simulation.rs and the whole
// macros/scoped_thread_local.rs is cut from /repo on every run with NO rewrite rule and compiled against executable stubs:
// a `Runnable` is a scripted closure (it may "send" or "receive" a message - the two real lines of channel.rs that move
// THREAD_MSG_COUNT -, set the current model id and panic, or queue a further task), `Slab`/`CancelToken`/`Signal` are inert.
// `main` runs every script up to the bound, also NESTED in an enclosing executor whose own in-flight count is non-zero,
// and compares the report with C06 (a run in which every sent message was received is never reported as lossy;
// otherwise UnprocessedMessages carries exactly sent minus received; the enclosing executor's count is neither leaked in
// nor lost) and C11 (a panic is reported as Panic with the panicking model's id and the original payload, whatever the
// in-flight count). The multi-threaded executor is NOT covered.
#![allow(dead_code, unused_imports, unused_variables, unused_mut, unused_macros, unreachable_code)]
use std::collections::BTreeMap;

pub mod macros {
    pub mod scoped_thread_local {
//@item src=nexosim/src/macros/scoped_thread_local.rs kind=filehead name=scoped_thread_local id=file-scoped_thread_local
//@end
    }
}
pub mod channel {
    use std::cell::Cell;
    // channel.rs: `thread_local! { pub(crate) static THREAD_MSG_COUNT: Cell<isize> = const { Cell::new(0) }; }`
    thread_local! { pub(crate) static THREAD_MSG_COUNT: Cell<isize> = const { Cell::new(0) }; }
    // the two lines of channel.rs that move the counter (Sender::send after a successful push, Receiver::recv after a pop)
    pub fn count_send() {
        THREAD_MSG_COUNT.set(THREAD_MSG_COUNT.get().wrapping_add(1));
    }
    pub fn count_recv() {
        THREAD_MSG_COUNT.set(THREAD_MSG_COUNT.get().wrapping_sub(1));
    }
}
pub mod simulation {
    use std::cell::Cell;
    #[derive(Copy, Clone, Debug)]
//@item src=nexosim/src/simulation.rs kind=struct name=ModelId
//@end
//@item src=nexosim/src/simulation.rs kind=impl name=`^impl ModelId ` id=impl-ModelId
//@end
//@item src=nexosim/src/simulation.rs kind=impl name=`Default for ModelId` id=impl-Default-ModelId
//@end
    impl ModelId {
        pub fn mk(i: usize) -> Self {
            Self::new(i)
        }
        pub fn value(&self) -> Option<usize> {
            self.get()
        }
        pub fn no_model() -> Self {
            Self::none()
        }
    }
    thread_local! { pub(crate) static CURRENT_MODEL_ID: Cell<ModelId> = const { Cell::new(ModelId::none()) }; }
}
pub mod executor {
    use crate::macros::scoped_thread_local::scoped_thread_local;
    use crate::simulation::ModelId;
    use std::any::Any;
    #[derive(Clone)]
    pub struct Signal;
    impl Signal {
        pub fn is_set(&self) -> bool {
            false
        }
        pub fn set(&self) {}
    }
    #[derive(Clone)]
    pub(crate) struct SimulationContext {}
    scoped_thread_local!(pub(crate) static SIMULATION_CONTEXT: SimulationContext);
//@item src=nexosim/src/executor.rs kind=enum name=ExecutorError
//@end
    pub mod task {
        pub struct Runnable(pub Box<dyn FnOnce()>);
        impl Runnable {
            pub fn run(self) {
                (self.0)()
            }
        }
        pub struct CancelToken;
        impl CancelToken {
            pub fn cancel(self) {}
        }
    }
    pub mod st_executor {
        use super::task::{CancelToken, Runnable};
        use crate::channel;
        use crate::executor::{ExecutorError, Signal, SimulationContext, SIMULATION_CONTEXT};
        use crate::macros::scoped_thread_local::scoped_thread_local;
        use crate::simulation::CURRENT_MODEL_ID;
        use std::cell::RefCell;
        use std::panic::AssertUnwindSafe;
        use std::future::Future;
        use std::sync::atomic::Ordering;
        use std::time::Duration;
        use std::{fmt, panic, thread};
        pub struct Slab<T>(Vec<T>);
        impl<T> Slab<T> {
            pub fn new() -> Self {
                Slab(Vec::new())
            }
            pub fn drain(&mut self) -> std::vec::Drain<'_, T> {
                self.0.drain(..)
            }
        }
        const QUEUE_MIN_CAPACITY: usize = 32;
        scoped_thread_local!(static EXECUTOR_CONTEXT: ExecutorContext);
        scoped_thread_local!(static ACTIVE_TASKS: RefCell<Slab<CancelToken>>);
//@item src=nexosim/src/executor/st_executor.rs kind=struct name=ExecutorInner
//@end
//@item src=nexosim/src/executor/st_executor.rs kind=impl name=`^impl ExecutorInner ` id=impl-ExecutorInner
//@end
//@item src=nexosim/src/executor/st_executor.rs kind=impl name=`Drop for ExecutorInner` id=impl-Drop-ExecutorInner
//@end
//@item src=nexosim/src/executor/st_executor.rs kind=struct name=ExecutorContext
//@end
//@item src=nexosim/src/executor/st_executor.rs kind=impl name=`^impl ExecutorContext ` id=impl-ExecutorContext
//@end
//@helpers src=nexosim/src/executor/st_executor.rs
//@include inc/xexec_harness.rs
    }
}

fn main() {
    executor::st_executor::run_all();
}
