//@unit sim
//@props C01,C06,C07,C08,C09,C10,C11,C16,C18
//@verus --rlimit 150 --triggers-mode silent
// Unit sim: the sequential kernel of nexosim/src/simulation.rs.
//   Simulation::{time, step, step_until, process, run (+ lifted closure), step_to_next_bounded
//   (with nested pull_next_action / peek_next_key), step_until_unchecked}, ModelId::{none,new,get},
//   struct Simulation, DeadlockInfo, enum ExecutionError.
// Everything outside `//@item … //@end` is prelude: stubs (= assumptions, scanned and listed on every
// run), spec functions and lemmas (checked by Verus).
//
// ---- rewrite rules (each is recorded in the evidence file when it fires) ----
//@rule GUARDTY :: MutexGuard<SchedulerQueue> :: SchedulerQueue :: R1 a guard is exclusive access to the queue
//@rule LOCK :: let mut scheduler_queue = self\.scheduler_queue\.lock\(\)\.unwrap\(\); :: lock_queue(&mut self.scheduler_queue, &self.time); :: R1b critical-section entry becomes a stub call (functional pass: no interference; monitor pass: havoc)
//@rule UNLOCK :: drop\(scheduler_queue\); :: unlock_queue(&mut self.scheduler_queue, &self.time); :: R13 critical-section exit becomes a stub call
//@rule GUARDUSE :: &mut scheduler_queue\b :: &mut self.scheduler_queue :: R1b the guard is the queue itself
//@rule REFPAT :: Some\(\(&key, action\)\) :: Some((key, action)) :: R4 ref pattern unsupported by Verus
//@rule REFUSE :: break Some\(key\) :: break Some(*key) :: R4
//@rule EXECMUT :: &self\.executor\b :: &mut self.executor :: R2 executor handle made exclusive so that it can carry the ghost task log
//@rule MAPUNIT :: \|_\| :: |_x| :: R14 wildcard closure parameter unsupported by Verus
//@rule PUBSTRUCT :: ^(\s*)(?:pub(?:\(crate\))? )?struct :: \1pub struct :: R7
//@rule PUBTUPLE :: \(usize\); :: (pub usize); :: R7
//@rule QUEUEFIELD :: Arc<Mutex<SchedulerQueue>> :: SchedulerQueue :: R2
//@rule CLOCKFIELD :: Box<dyn Clock> :: ClockBox :: R2 trait object as an abstract stub type
//@rule OBSFIELD :: Box<dyn ChannelObserver> :: ObserverBox :: R2
//@rule PAYLOAD :: Box<dyn Any \+ Send \+ 'static> :: Payload :: R10
//@rule TYPEID :: \(\*payload\)\.type_id\(\) == TypeId::of::<SendError>\(\) :: payload_is_send_error(&payload) :: R10 Any/TypeId are outside Verus: uninterpreted attribute of the payload
//@rule RESUME :: panic::resume_unwind\(payload\) :: resume_unwind(payload) :: R10 diverging stub
//@rule NAMEMAP :: \.map\(\|id\| (self\.model_names\.get\(id\)\.unwrap\(\)\.clone\(\))\) :: .map(|id: usize| -> (r: String) { \1 }) :: R17 typed, braced closure so that it can carry a requires clause
//@rule RUNGHOST :: self\.executor\.run\(self\.timeout\) :: self.executor.run(self.timeout, Ghost(self.time.val()), Ghost(last_sync(self.clock.syncs()))) :: R2 ghost arguments: the executor's log records the time and the last synchronised time at which it was entered
//@rule ASSERTNE :: assert_ne!\(id, usize::MAX\); :: if id == usize::MAX { vpanic(); } :: R6 panics are divergence
//@rule LAGCMP :: if &lag > tolerance :: if dur_gt(&lag, tolerance) :: R16 comparison of std Durations through a specified stub
//@rule ARMBRACE :: None => return Ok\(None\), :: None => { return Ok(None) } :: R17 braces around a match-arm expression so that a proof block can precede it
//@rule HOOK :: #\[cfg\(asynchronix_verif\)\]\s*crate::verif_hooks::pause_point\([^)]*\); ::  :: R19 verification-only pause points are no-ops without an installed callback
//@rule LOCK2 :: let scheduler_queue = self\.scheduler_queue\.lock\(\)\.unwrap\(\); :: lock_queue(&mut self.scheduler_queue, &self.time); :: R1b
//@rule GUARDPEEK :: \bscheduler_queue\.peek\(\) :: self.scheduler_queue.peek() :: R1b
//@rule ARMBRACE2 :: Ok\(Some\(t\)\) if t == target_time => return Ok\(\(\)\), :: Ok(Some(t)) if t == target_time => { return Ok(()) }, :: R17 braces around a match-arm expression so that a proof block can precede it
//@rule SCHEDNEW :: Scheduler::new\(self\.scheduler_queue\.clone\(\), self\.time\.reader\(\)\) :: scheduler_handle_stub() :: R2 a handle sharing queue and time (sharing elided)
//@rule CLOCKPARAM :: Box<dyn Clock \+ 'static> :: ClockBox :: R2
//@rule PUBCRATENEW :: pub\(crate\) fn new :: pub fn new :: R7
//@rule TIMEWRITEMUT :: KEEP :: KEEP :: (unused)
//@rule DROPSENDER :: \n\s*let sender = address\.into\(\)\.0; ::  :: R8 the mailbox sender is only used by the dropped send future
//@pyrule ASYNCSEND :: abstract_async_block(fut ;; opaque_send_future()) :: R8 the async send future is not expressible in Verus
//@rule SLOT :: slot::slot\(\) :: slot_pair() :: R7 module path of a stub
//@rule INTOADDR :: address: impl Into<Address<M>> :: address: A :: R14 impl-Trait argument as a named generic
//@rule GENERICA4 :: <M, F, T, S>\( :: <M, F, T, S, A: Into<Address<M>>>( :: R14
//@rule GENERICA5 :: <M, F, T, R, S>\( :: <M, F, T, R, S, A: Into<Address<M>>>( :: R14
//@rule BADQUERY :: reply_reader\n\s*\.try_read\(\)\n\s*\.map_err\(\|_x\| ExecutionError::BadQuery\) :: bad_query_if_unread(reply_reader\n            .try_read()) :: R16 Result::map_err with a constant closure through a specified stub
//@rule IMPLDL :: deadline: impl Deadline :: deadline: impl Deadline :: R14 (kept as is)
//@pyrule GUARD :: inline_guard(scheduler_queue ;; self.scheduler_queue ;; lock_queue(&mut self.scheduler_queue, &self.time); ;; unlock_queue(&mut self.scheduler_queue, &self.time);) :: R1b/R13 the guard variable is the locked queue itself; lock()/drop() become stub calls (functional pass: no interference; monitor pass: havoc)
//@pyrule PUBFIELDS :: pub_fields() :: R7
//@pyrule MUTSELFP :: mut_self_param() :: R14 `mut self` parameter desugared
//@pyrule RET :: name_ret(res) :: R17 result named so that the contract can mention it
//@pyrule RETACTION :: name_ret(action ;; pull_next_action) :: R17
//@pyrule RETKEY :: name_ret(r ;; peek_next_key) :: R17
//@pyrule RETMAPERR :: name_ret(r ;; __run_map_err) :: R17
//@pyrule CLOSURE :: closure_to_fn(peek_next_key ;; upper_time_bound: MonotonicTime ;; Option<(MonotonicTime, usize)>) :: R11 closure lifted to a nested fn
//@pyrule BREAKVAL :: break_value(peek_next_key ;; Option<(MonotonicTime, usize)>) :: R5 break-with-value desugared
//@pyrule LIFT :: lift_map_err(__run_map_err ;; ExecutorError ;; ExecutionError) :: R9 lambda lifting of the map_err closure
use vstd::prelude::*;
use vstd::std_specs::cmp::{PartialOrdSpec, PartialOrdSpecImpl, PartialEqSpec, PartialEqSpecImpl};
use core::cmp::Ordering;
use std::time::Duration;
verus! {

#[verifier::external_body]
fn vpanic() -> ! { panic!() }

//@include inc/time_stubs.rs

//@include inc/kernel_stubs.rs

// Critical sections of Mutex<SchedulerQueue>. Functional pass: no other thread touches the queue
// (the monitor pass, unit simmon, replaces these two stubs by a havoc of the queue).
#[verifier::external_body]
fn lock_queue(q: &mut SchedulerQueue, time: &AtomicTime)
    ensures final(q).view() == old(q).view()
{ }
#[verifier::external_body]
fn unlock_queue(q: &mut SchedulerQueue, time: &AtomicTime)
    ensures final(q).view() == old(q).view()
{ }

//@include inc/sim_types.rs
//@include inc/sim_lemmas.rs
//@include inc/sim_post.rs

// ---------- C06: what a deadlock report must contain ----------
pub open spec fn deadlock_list(obs: Seq<(String, ObserverBox)>) -> Seq<(Seq<char>, usize)>
    decreases obs.len()
{
    if obs.len() == 0 { Seq::empty() } else {
        let r = deadlock_list(obs.drop_last());
        if obs.last().1.spec_len() != 0 { r.push((obs.last().0@, obs.last().1.spec_len())) } else { r }
    }
}
pub open spec fn info_view(l: Seq<DeadlockInfo>) -> Seq<(Seq<char>, usize)> {
    Seq::new(l.len(), |i: int| (l[i].model@, l[i].mailbox_size))
}
pub proof fn lemma_deadlock_list_push(obs: Seq<(String, ObserverBox)>, k: int)
    requires 0 <= k < obs.len()
    ensures deadlock_list(obs.subrange(0, k + 1)) ==
        if obs[k].1.spec_len() != 0 { deadlock_list(obs.subrange(0, k)).push((obs[k].0@, obs[k].1.spec_len())) }
        else { deadlock_list(obs.subrange(0, k)) }
{
    assert(obs.subrange(0, k + 1).drop_last() == obs.subrange(0, k));
    assert(obs.subrange(0, k + 1).last() == obs[k]);
}

// fatal errors terminate the simulation, non-fatal ones do not (C11)
pub open spec fn is_fatal(e: ExecutionError) -> bool {
    !(e is BadQuery) && !(e is InvalidDeadline)
}

impl Simulation {
    // well-formedness of the scheduler state: an invariant of every public operation
    pub open spec fn wf(&self) -> bool {
        &&& sorted(self.scheduler_queue.view())
        &&& all_later(self.scheduler_queue.view(), self.time.val())        // C01 last sentence
        &&& no_zero_period(self.scheduler_queue.view())                    // C08
        &&& self.clock.syncs().len() > 0 && self.clock.syncs().last() == self.time.val()   // C18
        &&& self.executor.n_models() == self.model_names@.len()
        &&& (!self.is_terminated ==> self.executor.usable())                // C11: only a terminated simulation may hold a dead executor
    }
}

impl ModelId {
//@item src=nexosim/src/simulation.rs kind=fn name=none within=`impl ModelId` id=ModelId::none rules=RET props=C11
    const fn none() -> (res: Self)
        //@[
        ensures res.0 == usize::MAX,
        //@]
    {
        Self(usize::MAX)
    }
//@end
//@item src=nexosim/src/simulation.rs kind=fn name=new within=`impl ModelId` id=ModelId::new rules=RET,ASSERTNE props=C11
    fn new(id: usize) -> (res: Self)
        //@[
        ensures res.0 == id, id != usize::MAX,
        //@]
    {
        if id == usize::MAX { vpanic(); }

        Self(id)
    }
//@end
//@item src=nexosim/src/simulation.rs kind=fn name=get within=`impl ModelId` id=ModelId::get rules=RET props=C11
    fn get(&self) -> (res: Option<usize>)
        //@[
        ensures res == if self.0 != usize::MAX { Some(self.0) } else { None::<usize> },
        //@]
    {
        if self.0 != usize::MAX {
            Some(self.0)
        } else {
            None
        }
    }
//@end
}

impl Simulation {
//@item src=nexosim/src/simulation.rs kind=fn name=time within=`impl Simulation` rules=RET props=C01
    pub fn time(&self) -> (res: MonotonicTime)
        //@[
        ensures res.t == self.time.val(),
        //@]
    {
        self.time.read()
    }
//@end

//@item src=nexosim/src/simulation.rs kind=fn name=run within=`impl Simulation` rules=RUNGHOST,LIFT,RET,RETMAPERR,TYPEID,RESUME,NAMEMAP props=C06,C11,C18
    fn run(&mut self) -> (res: Result<(), ExecutionError>)
        //@[
        requires
            old(self).executor.n_models() == old(self).model_names@.len(),
            !old(self).is_terminated ==> old(self).executor.usable(),
        ensures
            final(self).time.val() == old(self).time.val(),                                    //@ C01,C11 #run-keeps-time
            final(self).scheduler_queue.view() == old(self).scheduler_queue.view(),
            final(self).clock.syncs() == old(self).clock.syncs(),                              //@ C18 #run-no-sync
            final(self).clock.last_status() == old(self).clock.last_status(),
            final(self).executor.spawned() == old(self).executor.spawned(),
            final(self).executor.n_models() == old(self).executor.n_models(),
            !final(self).is_terminated ==> final(self).executor.usable(),                        //@ C11 #executor-usable-unless-terminated
            final(self).model_names@ == old(self).model_names@,
            final(self).observers@ == old(self).observers@,
            final(self).clock_tolerance == old(self).clock_tolerance,
            // C11: a terminated simulation returns Terminated and no model code runs
            old(self).is_terminated ==> (res matches Err(ExecutionError::Terminated))           //@ C11 #terminated-stays
                && final(self).executor.run_at() == old(self).executor.run_at() && final(self).is_terminated,  //@ C11 #terminated-stays
            // the model code runs exactly once, at the current time, the clock being synchronised on whatever it was last
            // synchronised on: the callers' contracts say what these two must be (C01: the deadline; C18: the same deadline)
            !old(self).is_terminated ==> final(self).executor.run_at()
                == old(self).executor.run_at().push((old(self).time.val(), last_sync(old(self).clock.syncs()))),
            // C11: every error reported by run is fatal and terminates the simulation
            res is Err ==> final(self).is_terminated,                                          //@ C11 #error-terminates
            res is Ok ==> final(self).is_terminated == old(self).is_terminated,                //@ C11 #ok-keeps-state
            res matches Err(e) ==> is_fatal(e) && !(e is OutOfSync) && (e is Terminated ==> old(self).is_terminated),
            // C06: Deadlock / MessageLoss classification is exact
            res matches Err(ExecutionError::Deadlock(l)) ==> (!old(self).is_terminated)        //@ C06 #deadlock-exact
                && info_view(l@) == deadlock_list(old(self).observers@) && l@.len() > 0,       //@ C06 #deadlock-exact
            res matches Err(ExecutionError::MessageLoss(_n)) ==> (!old(self).is_terminated)    //@ C06 #loss-exact
                && deadlock_list(old(self).observers@).len() == 0,                             //@ C06 #loss-exact
        //@]
    {
        if self.is_terminated {
            return Err(ExecutionError::Terminated);
        }

        match self.executor.run(self.timeout, Ghost(self.time.val()), Ghost(last_sync(self.clock.syncs()))) { Ok(v) => Ok(v), Err(e) => Err(self.__run_map_err(e)) }
    }

    fn __run_map_err(&mut self, e: ExecutorError) -> (r: ExecutionError)
        //@[
        requires
            e matches ExecutorError::Panic(id, _p) ==> id.0 == usize::MAX || id.0 < old(self).model_names@.len(),
        ensures
            final(self).is_terminated,                                                          //@ C11 #error-terminates
            final(self).time.val() == old(self).time.val(),
            final(self).scheduler_queue.view() == old(self).scheduler_queue.view(),
            final(self).clock.syncs() == old(self).clock.syncs(),
            final(self).clock.last_status() == old(self).clock.last_status(),
            final(self).executor.spawned() == old(self).executor.spawned(),
            final(self).executor.run_at() == old(self).executor.run_at(),
            final(self).executor.n_models() == old(self).executor.n_models(),
            final(self).model_names@ == old(self).model_names@,
            final(self).observers@ == old(self).observers@,
            final(self).clock_tolerance == old(self).clock_tolerance,
            is_fatal(r), !(r is Terminated), !(r is OutOfSync),                                 //@ C11 #maps-to-fatal
            // C11: classification of executor failures
            e matches ExecutorError::Timeout ==> r is Timeout,                                  //@ C11 #timeout-maps
            e matches ExecutorError::Panic(id, p) ==> (                                         //@ C11 #panic-maps
                if p.is_send_error() {                                                          //@ C11 #panic-maps
                    r matches ExecutionError::NoRecipient { model }                             //@ C11 #panic-maps
                        && (id.0 == usize::MAX ==> model is None)                               //@ C11 #panic-maps
                        && (id.0 != usize::MAX ==> model is Some && model.unwrap()@ == old(self).model_names@[id.0 as int]@)  //@ C11 #panic-maps
                } else {                                                                        //@ C11 #panic-maps
                    r matches ExecutionError::Panic { model, payload }                          //@ C11 #panic-maps
                        && id.0 != usize::MAX && model@ == old(self).model_names@[id.0 as int]@ && payload == p   //@ C11 #panic-maps
                }),                                                                             //@ C11 #panic-maps
            // C06: UnprocessedMessages is Deadlock exactly when an observed mailbox is non-empty
            e matches ExecutorError::UnprocessedMessages(n) ==> (                               //@ C06 #unprocessed-maps
                if deadlock_list(old(self).observers@).len() == 0 { r matches ExecutionError::MessageLoss(m) && m == n }   //@ C06 #unprocessed-maps
                else { r matches ExecutionError::Deadlock(l) && info_view(l@) == deadlock_list(old(self).observers@) }),    //@ C06 #unprocessed-maps
            r matches ExecutionError::Deadlock(l) ==> info_view(l@) == deadlock_list(old(self).observers@) && l@.len() > 0,  //@ C06 #deadlock-exact
            r matches ExecutionError::MessageLoss(_n) ==> deadlock_list(old(self).observers@).len() == 0,                   //@ C06 #loss-exact
        //@]
    {
            self.is_terminated = true;

            match e {
                ExecutorError::UnprocessedMessages(msg_count) => {
                    let mut deadlock_info = Vec::new();
                    let ghost obs = self.observers@;                                            //@
                    for (model, observer) in
                        it: //@
                        &self.observers
                        //@[
                        invariant
                            obs == self.observers@,
                            info_view(deadlock_info@) == deadlock_list(obs.subrange(0, it.index@ as int)),   //@ C06 #deadlock-list-so-far
                        //@]
                    {
                        let mailbox_size = observer.len();
                        //@[
                        proof {
                            lemma_deadlock_list_push(obs, it.index@ as int);
                        }
                        let ghost old_info = deadlock_info@;
                        //@]
                        if mailbox_size != 0 {
                            deadlock_info.push(DeadlockInfo {
                                model: model.clone(),
                                mailbox_size,
                            });
                            //@[
                            proof {
                                assert(info_view(deadlock_info@) =~= info_view(old_info).push((model@, mailbox_size)));   //@ C06
                            }
                            //@]
                        }
                    }
                    //@[
                    proof {
                        assert(obs.subrange(0, obs.len() as int) == obs);
                        assert(info_view(deadlock_info@).len() == deadlock_info@.len());
                    }
                    //@]

                    if deadlock_info.is_empty() {
                        ExecutionError::MessageLoss(msg_count)
                    } else {
                        ExecutionError::Deadlock(deadlock_info)
                    }
                }
                ExecutorError::Timeout => ExecutionError::Timeout,
                ExecutorError::Panic(model_id, payload) => {
                    let model = model_id
                        .get()
                        .map(|id: usize| -> (r: String)
                            //@[
                            requires id < self.model_names@.len(),
                            ensures r@ == self.model_names@[id as int]@,
                            //@]
                            { self.model_names.get(id).unwrap().clone() });

                    // Filter out panics originating from a `SendError`.
                    if payload_is_send_error(&payload) {
                        return ExecutionError::NoRecipient { model };
                    }

                    if let Some(model) = model {
                        return ExecutionError::Panic { model, payload };
                    }

                    // The panic is due to an internal issue.
                    resume_unwind(payload);
                }
            }
        }
//@end
}

impl Simulation {
//@item src=nexosim/src/simulation.rs kind=fn name=step_to_next_bounded within=`impl Simulation` rules=GUARDTY,REFPAT,REFUSE,CLOSURE,BREAKVAL,GUARD,MAPUNIT,EXECMUT,LAGCMP,ARMBRACE,RET,RETACTION,RETKEY
    fn step_to_next_bounded(
        &mut self,
        upper_time_bound: MonotonicTime,
    ) -> (res: Result<Option<MonotonicTime>, ExecutionError>)
        //@[
        requires
            old(self).wf(),
        ensures
            sorted(final(self).scheduler_queue.view()),                                             //@ #queue-sorted
            all_later(final(self).scheduler_queue.view(), final(self).time.val()),                  //@ C01 #pending-strictly-later
            no_zero_period(final(self).scheduler_queue.view()),                                     //@ C08 #no-zero-period
            final(self).clock.syncs().len() > 0 && final(self).clock.syncs().last() == final(self).time.val(),   //@ C18 #synced-on-current-time
            final(self).executor.n_models() == final(self).model_names@.len(),                      //@ C11 #model-ids-valid
            !final(self).is_terminated ==> final(self).executor.usable(),                                   //@ C11 #executor-usable-unless-terminated
            final(self).time.val() >= old(self).time.val(),                                     //@ C01 #time-monotone
            final(self).clock_tolerance == old(self).clock_tolerance,
            final(self).model_names@ == old(self).model_names@, final(self).observers@ == old(self).observers@,
            // C11: on a terminated simulation: Terminated, time unchanged, no model code runs
            old(self).is_terminated ==> (res matches Err(ExecutionError::Terminated))            //@ C11 #terminated-no-effect
                && terminated_noop(*old(self), *final(self)),                                   //@ C11 #terminated-no-effect
            res matches Err(e) ==> final(self).is_terminated && is_fatal(e),                     //@ C11 #error-terminates
            res is Ok ==> final(self).is_terminated == old(self).is_terminated,                  //@ C11 #ok-keeps-state
            // a step to a new time
            res matches Ok(Some(tm)) ==> tm.t == final(self).time.val(),                         //@ C01 #returns-new-time
            res matches Ok(Some(tm)) ==> stepped_exec(*old(self), *final(self), upper_time_bound.t),   //@ C01,C09 #executes-exactly-the-due-live-actions
            res matches Ok(Some(tm)) ==> stepped_groups(*old(self), *final(self)),                //@ C07 #one-task-per-origin-in-order
            res matches Ok(Some(tm)) ==> stepped_queue(*old(self), *final(self)),                 //@ C08,C09,C10 #queue-accounting
            res matches Ok(Some(tm)) ==> stepped_sync(*old(self), *final(self)),                  //@ C18 #one-sync-per-step
            // nothing due
            res matches Ok(None) ==> idle(*old(self), *final(self), upper_time_bound.t),          //@ C01,C09,C18 #idle-has-no-effect
            // C18: OutOfSync exactly when the reported lag exceeds the configured tolerance, before any model code
            res matches Err(ExecutionError::OutOfSync(lag)) ==> !old(self).is_terminated          //@ C18 #out-of-sync-exact
                && final(self).clock.last_status() == SyncStatus::OutOfSync(lag)                  //@ C18 #out-of-sync-exact
                && (old(self).clock_tolerance matches Some(tol) && dur_ns(lag) > dur_ns(tol))     //@ C18 #out-of-sync-exact
                && final(self).executor.run_at() == old(self).executor.run_at()                       //@ C18 #out-of-sync-exact
                && stepped_sync(*old(self), *final(self)),                                        //@ C18 #out-of-sync-exact
            (!old(self).is_terminated && !(res matches Ok(None)) && !(res matches Err(ExecutionError::OutOfSync(_)))) ==>   //@ C18 #lag-within-tolerance-proceeds
                stepped_sync(*old(self), *final(self)) && final(self).executor.runs() == old(self).executor.runs() + 1      //@ C18 #lag-within-tolerance-proceeds
                && !(final(self).clock.last_status() matches SyncStatus::OutOfSync(lag)                                     //@ C18 #lag-within-tolerance-proceeds
                     && old(self).clock_tolerance matches Some(tol) && dur_ns(lag) > dur_ns(tol)),                          //@ C18 #lag-within-tolerance-proceeds
            // whenever the models run in this step, they run once, at the new time (C01: a handler reading the time sees its
            // deadline) and after the clock was synchronised on that time (C18)
            (!old(self).is_terminated && !(res matches Ok(None)) && !(res matches Err(ExecutionError::OutOfSync(_)))) ==>   //@ C01 #handlers-see-the-deadline
                ran_at_the_new_time(*old(self), *final(self)),                                                              //@ C01 #handlers-see-the-deadline
            (!old(self).is_terminated && !(res matches Ok(None)) && !(res matches Err(ExecutionError::OutOfSync(_)))) ==>   //@ C18 #synchronized-before-the-models-run
                ran_after_sync(*old(self), *final(self)),                                                                   //@ C18 #synchronized-before-the-models-run
        //@]
    {
        // Function pulling the next action. If the action is periodic, it is
        // immediately re-scheduled.
        fn pull_next_action(scheduler_queue: &mut SchedulerQueue) -> (action: Action)
            //@[
            requires
                old(scheduler_queue).view().len() > 0,
                sorted(old(scheduler_queue).view()),
                no_zero_period(old(scheduler_queue).view()),
            ensures
                sorted(final(scheduler_queue).view()),
                no_zero_period(final(scheduler_queue).view()),                                    //@ C08,C10
                action.aid() == old(scheduler_queue).view()[0].aid,
                action.cancelled() == old(scheduler_queue).view()[0].cancelled,
                pull_rel(old(scheduler_queue).view(), final(scheduler_queue).view()),             //@ C10,C08,C01 #pull-reinserts-periodic-at-t-plus-p
            //@]
        {
            let ghost q0 = scheduler_queue.view();                                               //@
            let ((time, channel_id), action) = scheduler_queue.pull().unwrap();
            //@[
            proof {
                lemma_sorted_subrange(q0, 1, q0.len() as int);
                assert(q0.drop_first() == q0.subrange(1, q0.len() as int));
                assert forall|i: int| 0 <= i < q0.drop_first().len() implies (#[trigger] q0.drop_first()[i]).period != Some(0nat) by {
                    assert(q0.drop_first()[i] == q0[i + 1]);
                }
            }
            //@]
            if let Some((action_clone, period)) = action.next() {
                let ghost q1 = scheduler_queue.view();                                           //@
                scheduler_queue.insert((time + period, channel_id), action_clone);
                //@[
                proof {
                    let e = entry_of((time_add(time, period), channel_id), action_clone);
                    let p = choose|p: int| 0 <= p <= q1.len()
                        && #[trigger] scheduler_queue.view() == q1.insert(p, e)
                        && (forall|i: int| 0 <= i < p ==> key_le(#[trigger] q1[i], e))
                        && (forall|i: int| p <= i < q1.len() ==> !key_le(#[trigger] q1[i], e));
                    assert(is_reins(q0[0], e));                                                   //@ C10,C08,C01 #reinserted-at-t-plus-period
                    assert forall|i: int| 0 <= i < scheduler_queue.view().len() implies (#[trigger] scheduler_queue.view()[i]).period != Some(0nat) by {   //@ C08,C10
                        if i < p { assert(scheduler_queue.view()[i] == q1[i]); }                   //@ C08,C10
                        else if i == p { }                                                       //@ C08,C10
                        else { assert(scheduler_queue.view()[i] == q1[i - 1]); }                  //@ C08,C10
                    }                                                                            //@ C08,C10
                }
                //@]
            }

            action
        }

        // Closure returning the next key which time stamp is no older than the
        // upper bound, if any. Cancelled actions are pulled and discarded.
        fn peek_next_key(scheduler_queue: &mut SchedulerQueue, upper_time_bound: MonotonicTime) -> (r: Option<(MonotonicTime, usize)>)
            //@[
            ensures
                exists|n: int| peek_rel(old(scheduler_queue).view(), final(scheduler_queue).view(), upper_time_bound.t, n),   //@ C09,C01 #discards-only-cancelled-heads
                r matches Some(k) ==> final(scheduler_queue).view().len() > 0 && final(scheduler_queue).view()[0].time == k.0.t
                    && final(scheduler_queue).view()[0].origin == k.1 && !final(scheduler_queue).view()[0].cancelled
                    && k.0.t <= upper_time_bound.t,                                                                          //@ C09,C01 #next-key-is-live-head
                r is None ==> final(scheduler_queue).view().len() == 0 || final(scheduler_queue).view()[0].time > upper_time_bound.t,   //@ C01,C08 #none-means-nothing-due
            //@]
        {
            //@[
            let ghost q0 = scheduler_queue.view();
            let ghost mut n: int = 0;
            proof { assert(q0.subrange(0, q0.len() as int) == q0); }
            //@]
            let mut __brk: Option<(MonotonicTime, usize)>;
            loop
                //@[
                invariant
                    q0 == old(scheduler_queue).view(),
                    peek_rel(q0, scheduler_queue.view(), upper_time_bound.t, n),                  //@ C09,C01 #discards-only-cancelled-heads
                ensures
                    peek_rel(q0, scheduler_queue.view(), upper_time_bound.t, n),                  //@ C09,C01 #discards-only-cancelled-heads
                    __brk matches Some(k) ==> scheduler_queue.view().len() > 0 && scheduler_queue.view()[0].time == k.0.t
                        && scheduler_queue.view()[0].origin == k.1 && !scheduler_queue.view()[0].cancelled
                        && k.0.t <= upper_time_bound.t,                                           //@ C09,C01 #next-key-is-live-head
                    __brk is None ==> scheduler_queue.view().len() == 0 || scheduler_queue.view()[0].time > upper_time_bound.t,   //@ C01,C08 #none-means-nothing-due
                decreases scheduler_queue.view().len(),                                          //@ C08 #peek-terminates
                //@]
            {
                match scheduler_queue.peek() {
                    Some((key, action)) if key.0 <= upper_time_bound => {
                        if !action.is_cancelled() {
                            { __brk = Some(*key); break; }
                        }
                        // Discard cancelled actions.
                        let ghost q1 = scheduler_queue.view();                                   //@
                        scheduler_queue.pull();
                        //@[
                        proof {
                            assert(q1[0] == q0[n]);
                            assert(scheduler_queue.view() == q0.subrange(n + 1, q0.len() as int));
                            n = n + 1;
                        }
                        //@]
                    }
                    _ => { __brk = None; break; },
                }
            }
            __brk
        }

        // A terminated simulation must neither advance time nor process
        // actions.
        if self.is_terminated {
            return Err(ExecutionError::Terminated);
        }

        // Move to the next scheduled time.
        //@[
        let ghost q0 = self.scheduler_queue.view();
        let ghost time0 = self.time.val();
        let ghost pre = *self;
        //@]
        lock_queue(&mut self.scheduler_queue, &self.time);
        let mut current_key = match peek_next_key(&mut self.scheduler_queue, upper_time_bound) {
            Some(key) => key,
            None => {
                //@[
                proof {
                    let qa = self.scheduler_queue.view();
                    let n0 = choose|n: int| peek_rel(q0, qa, upper_time_bound.t, n);
                    lemma_sorted_subrange(q0, n0, q0.len() as int);
                    assert forall|i: int| 0 <= i < qa.len() implies (#[trigger] qa[i]).time > time0 && qa[i].period != Some(0nat) by {
                        assert(qa[i] == q0[n0 + i]);
                    }
                    assert(peek_rel(q_of(pre), q_of(*self), upper_time_bound.t, n0));
                }
                //@]
                return Ok(None)
            }
        };
        //@[
        let ghost qa = self.scheduler_queue.view();
        let ghost t = current_key.0.t;
        let ghost kk: int = nle(qa, t) as int;
        let ghost pend0 = self.executor.spawned();
        let ghost syncs0 = self.clock.syncs();
        let ghost term0 = self.is_terminated;
        proof {
            let n0 = choose|n: int| peek_rel(q0, qa, upper_time_bound.t, n);
            lemma_peek_preserves(q0, qa, upper_time_bound.t, n0);
            assert forall|i: int| 0 <= i < qa.len() implies (#[trigger] qa[i]).time > time0 by {
                assert(qa[i] == q0[n0 + i]);
            }
            lemma_due_of_original(q0, qa, upper_time_bound.t, n0, t);
            lemma_nle(qa, t);
            assert forall|i: int| 0 <= i < kk implies (#[trigger] qa[i]).time == t by {
                if i > 0 { assert(key_le(qa[0], qa[i])); }
            }
            assert(kk >= 1);
            assert(qa.subrange(0, kk) == qa.subrange(kk - kk, kk));
            assert(qa.subrange(0, 0) == Seq::<Entry>::empty());
        }
        //@]
        self.time.write(current_key.0);
        //@[
        let ghost mut d: int = kk;
        let ghost mut tasks: Seq<Seq<int>> = Seq::empty();
        let ghost mut g: Groups = Groups { lo: Seq::empty(), hi: Seq::empty(), tor: Seq::empty(), own: Seq::empty() };
        let ghost n0: int = choose|n: int| peek_rel(q0, qa, upper_time_bound.t, n);
        proof {
            assert(pend0 + tasks == pend0);
            lemma_content_init(qa, t);
            assert(all_cancelled(q0.subrange(0, n0))) by {
                assert forall|i: int| 0 <= i < n0 implies (#[trigger] q0.subrange(0, n0)[i]).cancelled by { assert(q0.subrange(0, n0)[i] == q0[i]); }
            }
            assert(qa[0] == q0[n0]);
        }
        //@]

        loop
            //@[
            invariant
                d >= 1,     //@ C01,C07 #current-key-is-the-live-head
                self.scheduler_queue.view()[0].origin == current_key.1, !self.scheduler_queue.view()[0].cancelled,     //@ C01,C07 #current-key-is-the-live-head
                tasks.len() > 0 ==> g.tor[g.tor.len() - 1] < current_key.1,                       //@ C07
                t == current_key.0.t, t <= upper_time_bound.t, t > time0,     //@ C01 #due-list-bookkeeping
                q0 == old(self).scheduler_queue.view(), pre == *old(self), old(self).wf(),     //@ C01 #due-list-bookkeeping
                live_aids(q0.subrange(0, nle(q0, t) as int)) == live_aids(qa.subrange(0, kk)),     //@ C01 #due-list-bookkeeping
                sorted(qa), kk == nle(qa, t),     //@ C01 #due-list-bookkeeping
                forall|i: int| 0 <= i < kk ==> (#[trigger] qa[i]).time == t,     //@ C01 #due-list-bookkeeping
                self.time.val() == t,                                                             //@ C01,C18 #time-is-the-deadline-being-executed
                self.clock.syncs() == syncs0,                                                     //@ C18
                self.is_terminated == term0, !term0,                                              //@ C11
                self.clock_tolerance == old(self).clock_tolerance,     //@ C01 #due-list-bookkeeping
                self.model_names@ == old(self).model_names@, self.observers@ == old(self).observers@,     //@ C01 #due-list-bookkeeping
                self.executor.n_models() == old(self).executor.n_models(),     //@ C01 #due-list-bookkeeping
                self.executor.usable(),                                                          //@ C11 #executor-usable-unless-terminated
                self.executor.run_at() == old(self).executor.run_at(),                                //@ C11,C18
                syncs0 == old(self).clock.syncs(), pend0 == old(self).executor.spawned(), time0 == old(self).time.val(),     //@ C01 #due-list-bookkeeping
                syncs0.len() > 0, term0 == old(self).is_terminated,     //@ C01 #due-list-bookkeeping
                sorted(self.scheduler_queue.view()), no_zero_period(self.scheduler_queue.view()),     //@ C01 #due-list-bookkeeping
                due_inv(qa, kk, t, self.scheduler_queue.view(), d),     //@ C01 #due-list-bookkeeping
                self.executor.spawned() == pend0 + tasks,                                         //@ C01,C07,C09
                flat(tasks) == live_aids(qa.subrange(0, kk - d)),                                 //@ C01,C09
                groups_ok(qa, tasks, g, kk - d),                                                  //@ C07
                content_inv(qa, self.scheduler_queue.view(), t, kk - d), no_zero_period(qa),      //@ C08,C09,C10
                qa == q0.subrange(n0, q0.len() as int), 0 <= n0, nle(q0, t) == n0 + kk, all_cancelled(q0.subrange(0, n0)),     //@ C01 #due-list-bookkeeping
                n0 < q0.len(), !q0[n0].cancelled, q0[n0].time == t,     //@ C01 #due-list-bookkeeping
            decreases d,                                                                          //@ C08 #step-loop-terminates
            //@]
        {
            //@[
            let ghost qb = self.scheduler_queue.view();
            let ghost d_in = d;
            //@]
            let action = pull_next_action(&mut self.scheduler_queue);
            //@[
            let ghost q1 = self.scheduler_queue.view();
            let ghost s0 = kk - d_in;
            let ghost o_cur = current_key.1;
            proof {
                lemma_content_pull(qa, kk, t, qb, q1, d);
                lemma_pull_step(qa, kk, t, qb, q1, d);
                d = d - 1;
                assert(qa.subrange(s0, s0) == Seq::<Entry>::empty());
                lemma_la_push(qa, s0, s0);
                assert(Seq::<int>::empty().push(qa[s0].aid) == seq![qa[s0].aid]);
            }
            //@]
            let mut next_key = peek_next_key(&mut self.scheduler_queue, upper_time_bound);
            //@[
            let ghost q2 = self.scheduler_queue.view();
            proof {
                let n = choose|n: int| peek_rel(q1, q2, upper_time_bound.t, n);
                lemma_peek_preserves(q1, q2, upper_time_bound.t, n);
                lemma_peek_step(qa, kk, t, q1, q2, d, upper_time_bound.t, n);
                let d1 = d;
                d = after_peek_d(d, n);
                lemma_content_peek(qa, kk, t, q1, q2, upper_time_bound.t, n, kk - d1);
                lemma_content_mono(qa, q2, t, kk - d1, kk - d);
                lemma_la_cancelled(qa, s0, kk - d1, kk - d);
                assert(seg_origin(qa, s0, kk - d, o_cur)) by {
                    assert forall|i: int| s0 <= i < kk - d && !(#[trigger] qa[i]).cancelled implies qa[i].origin == o_cur by {
                        if i > s0 { assert(qa.subrange(kk - d1, kk - d)[i - (kk - d1)] == qa[i]); }
                    }
                }
            }
            //@]
            if next_key != Some(current_key) {
                // Since there are no other actions with the same origin and the
                // same time, the action is spawned immediately.
                action.spawn_and_forget(&mut self.executor);
                //@[
                proof {
                    let aid = qa[kk - d_in].aid;
                    lemma_flat_push(tasks, seq![aid]);
                    assert(flat(tasks) + seq![aid] == flat(tasks).push(aid));
                    assert((pend0 + tasks).push(seq![aid]) == pend0 + tasks.push(seq![aid]));
                    lemma_groups_push(qa, tasks, g, s0, kk - d, o_cur);                           //@ C07
                    g = groups_push(g, s0, kk - d, o_cur, tasks.len() as int);
                    tasks = tasks.push(seq![aid]);
                }
                //@]
            } else {
                // To ensure that their relative order of execution is
                // preserved, all actions with the same origin are executed
                // sequentially within a single compound future.
                let mut action_sequence = SeqFuture::new();
                action_sequence.push(action.into_future());
                //@[
                proof {
                    assert(Seq::<int>::empty().push(qa[kk - d_in].aid) == seq![qa[kk - d_in].aid]);
                    assert(flat(tasks) + seq![qa[kk - d_in].aid] == flat(tasks).push(qa[kk - d_in].aid));
                }
                //@]
                loop
                    //@[
                    invariant_except_break
                        d >= 1,                                                                                        //@ C07 #group-continues-while-the-head-has-the-same-key
                        self.scheduler_queue.view()[0].origin == current_key.1, !self.scheduler_queue.view()[0].cancelled,   //@ C07 #group-continues-while-the-head-has-the-same-key
                    invariant
                        t == current_key.0.t, t <= upper_time_bound.t,     //@ C01 #due-list-bookkeeping
                        sorted(qa), kk == nle(qa, t),     //@ C01 #due-list-bookkeeping
                        forall|i: int| 0 <= i < kk ==> (#[trigger] qa[i]).time == t,     //@ C01 #due-list-bookkeeping
                        sorted(self.scheduler_queue.view()), no_zero_period(self.scheduler_queue.view()),     //@ C01 #due-list-bookkeeping
                        due_inv(qa, kk, t, self.scheduler_queue.view(), d), d < d_in,     //@ C01 #due-list-bookkeeping
                        self.executor.spawned() == pend0 + tasks,     //@ C01 #due-list-bookkeeping
                        self.executor.run_at() == old(self).executor.run_at(),     //@ C01 #due-list-bookkeeping
                        self.executor.n_models() == old(self).executor.n_models(),     //@ C01 #due-list-bookkeeping
                        self.executor.usable(),                                                          //@ C11 #executor-usable-unless-terminated
                        self.time.val() == t, self.clock.syncs() == syncs0, self.is_terminated == term0,     //@ C01 #due-list-bookkeeping
                        self.clock_tolerance == old(self).clock_tolerance,     //@ C01 #due-list-bookkeeping
                        self.model_names@ == old(self).model_names@, self.observers@ == old(self).observers@,     //@ C01 #due-list-bookkeeping
                        flat(tasks) + action_sequence.aids() == live_aids(qa.subrange(0, kk - d)),                     //@ C01,C09
                        action_sequence.aids() == live_aids(qa.subrange(s0, kk - d)), s0 == kk - d_in, o_cur == current_key.1,   //@ C07
                        seg_origin(qa, s0, kk - d, o_cur), 0 <= s0,                                                    //@ C07
                        content_inv(qa, self.scheduler_queue.view(), t, kk - d), no_zero_period(qa),                   //@ C08,C09,C10
                        next_key matches Some(k) ==> self.scheduler_queue.view().len() > 0 && self.scheduler_queue.view()[0].time == k.0.t     //@ C01 #due-list-bookkeeping
                            && self.scheduler_queue.view()[0].origin == k.1 && !self.scheduler_queue.view()[0].cancelled     //@ C01 #due-list-bookkeeping
                            && k.0.t <= upper_time_bound.t,     //@ C01 #due-list-bookkeeping
                        next_key is None ==> self.scheduler_queue.view().len() == 0 || self.scheduler_queue.view()[0].time > upper_time_bound.t,     //@ C01 #due-list-bookkeeping
                    ensures
                        next_key != Some(current_key),                                                                 //@ C07 #group-ends-when-the-key-changes
                    decreases d,                                                                  //@ C08 #group-loop-terminates
                    //@]
                {
                    //@[
                    let ghost qb = self.scheduler_queue.view();
                    let ghost d_in2 = d;
                    let ghost aids_in = action_sequence.aids();
                    //@]
                    let action = pull_next_action(&mut self.scheduler_queue);
                    //@[
                    let ghost q1 = self.scheduler_queue.view();
                    proof {
                        lemma_content_pull(qa, kk, t, qb, q1, d);
                        lemma_pull_step(qa, kk, t, qb, q1, d);
                        lemma_la_push(qa, s0, kk - d);
                        d = d - 1;
                    }
                    //@]
                    action_sequence.push(action.into_future());
                    next_key = peek_next_key(&mut self.scheduler_queue, upper_time_bound);
                    //@[
                    let ghost q2 = self.scheduler_queue.view();
                    proof {
                        let n = choose|n: int| peek_rel(q1, q2, upper_time_bound.t, n);
                        lemma_peek_preserves(q1, q2, upper_time_bound.t, n);
                        lemma_peek_step(qa, kk, t, q1, q2, d, upper_time_bound.t, n);
                        let d1 = d;
                        d = after_peek_d(d, n);
                        lemma_content_peek(qa, kk, t, q1, q2, upper_time_bound.t, n, kk - d1);
                        lemma_content_mono(qa, q2, t, kk - d1, kk - d);
                        let aid = qa[kk - d_in2].aid;
                        assert(flat(tasks) + aids_in.push(aid) == (flat(tasks) + aids_in).push(aid));
                        lemma_la_cancelled(qa, s0, kk - d1, kk - d);
                        assert(seg_origin(qa, s0, kk - d, o_cur)) by {
                            assert forall|i: int| s0 <= i < kk - d && !(#[trigger] qa[i]).cancelled implies qa[i].origin == o_cur by {
                                if i > kk - d_in2 { assert(qa.subrange(kk - d1, kk - d)[i - (kk - d1)] == qa[i]); }
                            }
                        }
                    }
                    //@]
                    if next_key != Some(current_key) {
                        break;
                    }
                }

                // Spawn a compound future that sequentially polls all actions
                // targeting the same mailbox.
                let ghost aids = action_sequence.aids();                                          //@
                self.executor.spawn_and_forget(action_sequence);
                //@[
                proof {
                    lemma_flat_push(tasks, aids);
                    assert((pend0 + tasks).push(aids) == pend0 + tasks.push(aids));
                    lemma_groups_push(qa, tasks, g, s0, kk - d, o_cur);                           //@ C07
                    g = groups_push(g, s0, kk - d, o_cur, tasks.len() as int);
                    tasks = tasks.push(aids);
                }
                //@]
            }

            current_key = match next_key {
                // If the next action is scheduled at the same time, update the
                // key and continue.
                Some(k) if k.0 == current_key.0 => k,
                // Otherwise wait until all actions have completed and return.
                _ => {
                    //@[
                    proof {
                        // no due entry is left
                        if d >= 1 {
                            let q = self.scheduler_queue.view();
                            assert(q[0] == q.subrange(0, d)[0]);
                            assert(q[0].time == t);
                            assert(false);
                        }
                    }
                    //@]
                    unlock_queue(&mut self.scheduler_queue, &self.time); // make sure the queue's mutex is released.

                    let current_time = current_key.0;
                    //@[
                    proof {
                        assert(all_later(self.scheduler_queue.view(), t));
                    }
                    //@]
                    if let SyncStatus::OutOfSync(lag) = self.clock.synchronize(current_time) {
                        if let Some(tolerance) = &self.clock_tolerance {
                            if dur_gt(&lag, tolerance) {
                                self.is_terminated = true;

                                return Err(ExecutionError::OutOfSync(lag));
                            }
                        }
                    }
                    self.run()?;
                    //@[
                    proof {
                        assert(groups_ok(q0.subrange(n0, q0.len() as int), tasks, g, nle(q0, t) - n0));                 //@ C07
                        assert(content_inv(q0.subrange(n0, q0.len() as int), self.scheduler_queue.view(), t, nle(q0, t) - n0));   //@ C08,C09,C10
                        assert(self.executor.spawned() == pend0 + tasks);
                        assert(flat(tasks) == live_aids(q0.subrange(0, nle(q0, t) as int)));                              //@ C01,C09
                    }
                    //@]

                    return Ok(Some(current_time));
                }
            };
            //@[
            proof {
                // the loop continues with a live head of time t
                let q = self.scheduler_queue.view();
                if d < 1 { assert(q[0].time > t); assert(false); }
                // ... and a strictly larger origin than the group just spawned
                assert(q[0] == q.subrange(0, d)[0]);
                assert(q[0] == qa[kk - d]);
                assert(key_le(qa[s0], qa[kk - d]));
                assert(g.tor[g.tor.len() - 1] == o_cur);
            }
            //@]
        }
    }
//@end

//@item src=nexosim/src/simulation.rs kind=fn name=step_until_unchecked within=`impl Simulation` rules=HOOK,GUARD,MAPUNIT,ARMBRACE2,RET
    fn step_until_unchecked(&mut self, target_time: MonotonicTime) -> (res: Result<(), ExecutionError>)
        //@[
        requires
            old(self).wf(),
            target_time.t >= old(self).time.val(),
        ensures
            sorted(final(self).scheduler_queue.view()),                                             //@ #queue-sorted
            all_later(final(self).scheduler_queue.view(), final(self).time.val()),                  //@ C01 #pending-strictly-later
            no_zero_period(final(self).scheduler_queue.view()),                                     //@ C08 #no-zero-period
            final(self).clock.syncs().len() > 0 && final(self).clock.syncs().last() == final(self).time.val(),   //@ C18 #synced-on-current-time
            final(self).executor.n_models() == final(self).model_names@.len(),                      //@ C11 #model-ids-valid
            !final(self).is_terminated ==> final(self).executor.usable(),                                   //@ C11 #executor-usable-unless-terminated
            final(self).time.val() >= old(self).time.val(),                                     //@ C01 #time-monotone
            // C01: on success the time equals the target and nothing due up to it is left (wf: all pending are later)
            res is Ok ==> final(self).time.val() == target_time.t,                              //@ C01 #reaches-target
            res is Ok ==> final(self).is_terminated == old(self).is_terminated,                 //@ C11 #ok-keeps-state
            // C18: the final jump to the target synchronises on the target
            res is Ok ==> final(self).clock.syncs().last() == target_time.t,                    //@ C18 #sync-on-target
            // C18: every new time passed through is synchronised exactly once, in increasing order
            res is Ok ==> sync_trace_ok(*old(self), *final(self), target_time.t),               //@ C18 #each-new-time-synchronised-exactly-once
            // C18: the models never run at a time the clock was not synchronised on first
            runs_consistent(old(self).executor.run_at(), final(self).executor.run_at()),         //@ C18 #synchronized-before-the-models-run
            // C11
            old(self).is_terminated ==> (res matches Err(ExecutionError::Terminated))            //@ C11 #terminated-no-effect
                && terminated_noop(*old(self), *final(self)),                                   //@ C11 #terminated-no-effect
            res matches Err(e) ==> final(self).is_terminated && is_fatal(e),                     //@ C11 #error-terminates
        //@]
    {
        //@[
        let ghost mut app: Seq<u64> = Seq::empty();
        let ghost syncs0 = self.clock.syncs();
        let ghost time0 = self.time.val();
        proof { assert(syncs0 + app == syncs0); }
        //@]
        loop
            //@[
            invariant
                syncs0 == old(self).clock.syncs(), time0 == old(self).time.val(),
                self.clock.syncs() == syncs0 + app, strictly_increasing(app),                       //@ C18 #each-new-time-synchronised-exactly-once
                forall|i: int| 0 <= i < app.len() ==> time0 < #[trigger] app[i] && app[i] <= self.time.val(),            //@ C18 #each-new-time-synchronised-exactly-once
                app.len() > 0 ==> self.time.val() < target_time.t,                                  //@ C18 #each-new-time-synchronised-exactly-once
                sorted(self.scheduler_queue.view()),
                all_later(self.scheduler_queue.view(), self.time.val()),                            //@ C01
                no_zero_period(self.scheduler_queue.view()),                                        //@ C08
                self.clock.syncs().len() > 0 && self.clock.syncs().last() == self.time.val(),       //@ C18
                self.executor.n_models() == self.model_names@.len(),                                //@ C11
                !self.is_terminated ==> self.executor.usable(),                                     //@ C11
                target_time.t >= self.time.val(),
                self.time.val() >= old(self).time.val(),
                self.is_terminated == old(self).is_terminated,
                old(self).is_terminated ==> terminated_noop(*old(self), *self),
                runs_consistent(old(self).executor.run_at(), self.executor.run_at()),               //@ C18 #synchronized-before-the-models-run
            decreases target_time.t - self.time.val(),                                          //@ C08 #step-until-terminates
            //@]
        {
            let ghost before = *self;   //@
            match self.step_to_next_bounded(target_time) {
                // The target time was reached exactly.
                Ok(Some(t)) if t == target_time => {
                    //@[
                    proof {
                        assert(stepped_sync(before, *self));
                        let app2 = app.push(t.t);
                        assert(syncs0 + app2 =~= (syncs0 + app).push(t.t));
                        assert(strictly_increasing(app2));
                        assert(sync_trace_ok(*old(self), *self, target_time.t)) by { assert(strictly_increasing(app2)); }
                    }
                    //@]
                    return Ok(())
                },
                // No actions are scheduled before or at the target time.
                Ok(None) => {
                    // Update the simulation time. The scheduler queue must be
                    // locked while the time is updated, and inspected again:
                    // since the lock was released, a scheduler handle on another
                    // thread may have scheduled an action due before the target
                    // time, which was validated against the former time.
                    //@[
                    proof {
                        let q = self.scheduler_queue.view();
                        assert forall|i: int| 0 <= i < q.len() implies (#[trigger] q[i]).time > target_time.t by {
                            if i > 0 { assert(key_le(q[0], q[i])); }
                        }
                    }
                    //@]
                    lock_queue(&mut self.scheduler_queue, &self.time);
                    let next_is_due = match self.scheduler_queue.peek() {
                        Some((key, _)) => key.0 <= target_time,
                        None => false,
                    };
                    if !next_is_due {
                        self.time.write(target_time);
                    }
                    unlock_queue(&mut self.scheduler_queue, &self.time);
                    if next_is_due {
                        continue;
                    }
                    self.clock.synchronize(target_time);
                    //@[
                    proof {
                        let app2 = app.push(target_time.t);
                        assert(syncs0 + app2 =~= (syncs0 + app).push(target_time.t));
                        assert(strictly_increasing(app2));
                        assert(sync_trace_ok(*old(self), *self, target_time.t)) by { assert(strictly_increasing(app2)); }
                    }
                    //@]
                    return Ok(());
                }
                Err(e) => return Err(e),
                // The target time was not reached yet.
                _ => {
                    //@[
                    proof {
                        assert(stepped_sync(before, *self));
                        let tn = self.time.val();
                        assert(syncs0 + app.push(tn) =~= (syncs0 + app).push(tn));
                        app = app.push(tn);
                    }
                    //@]
                }
            }
        }
    }
//@end

//@item src=nexosim/src/simulation.rs kind=fn name=step within=`impl Simulation` rules=RET,MAPUNIT
    pub fn step(&mut self) -> (res: Result<(), ExecutionError>)
        //@[
        requires
            old(self).wf(),
        ensures
            sorted(final(self).scheduler_queue.view()),                                             //@ #queue-sorted
            all_later(final(self).scheduler_queue.view(), final(self).time.val()),                  //@ C01 #pending-strictly-later
            no_zero_period(final(self).scheduler_queue.view()),                                     //@ C08 #no-zero-period
            final(self).clock.syncs().len() > 0 && final(self).clock.syncs().last() == final(self).time.val(),   //@ C18 #synced-on-current-time
            final(self).executor.n_models() == final(self).model_names@.len(),                      //@ C11 #model-ids-valid
            !final(self).is_terminated ==> final(self).executor.usable(),                                   //@ C11 #executor-usable-unless-terminated
            final(self).time.val() >= old(self).time.val(),                                     //@ C01 #time-monotone
            // C01: step() advances to the earliest pending live deadline and runs everything due then,
            // or leaves the time unchanged when nothing is pending
            res is Ok ==> idle(*old(self), *final(self), u64::MAX)                               //@ C01,C09 #step-advances-to-earliest
                || stepped_exec(*old(self), *final(self), u64::MAX),                             //@ C01,C09 #step-advances-to-earliest
            res is Ok ==> idle(*old(self), *final(self), u64::MAX) || stepped_groups(*old(self), *final(self)),   //@ C07 #one-task-per-origin-in-order
            res is Ok ==> idle(*old(self), *final(self), u64::MAX) || stepped_queue(*old(self), *final(self)),    //@ C08,C09,C10 #queue-accounting
            res is Ok ==> idle(*old(self), *final(self), u64::MAX) || stepped_sync(*old(self), *final(self)),     //@ C18 #one-sync-per-step
            res is Ok ==> idle(*old(self), *final(self), u64::MAX) || ran_at_the_new_time(*old(self), *final(self)),   //@ C01 #handlers-see-the-deadline
            res is Ok ==> idle(*old(self), *final(self), u64::MAX) || ran_after_sync(*old(self), *final(self)),        //@ C18 #synchronized-before-the-models-run
            old(self).is_terminated ==> (res matches Err(ExecutionError::Terminated))            //@ C11 #terminated-no-effect
                && terminated_noop(*old(self), *final(self)),                                   //@ C11 #terminated-no-effect
            res matches Err(e) ==> final(self).is_terminated && is_fatal(e),                     //@ C11 #error-terminates
            res is Ok ==> final(self).is_terminated == old(self).is_terminated,                  //@ C11 #ok-keeps-state
        //@]
    {
        self.step_to_next_bounded(MonotonicTime::MAX).map(|_x| ())
    }
//@end

//@item src=nexosim/src/simulation.rs kind=fn name=step_until within=`impl Simulation` rules=RET
    pub fn step_until(&mut self, deadline: impl Deadline) -> (res: Result<(), ExecutionError>)
        //@[
        requires
            old(self).wf(),
        ensures
            sorted(final(self).scheduler_queue.view()),                                             //@ #queue-sorted
            all_later(final(self).scheduler_queue.view(), final(self).time.val()),                  //@ C01 #pending-strictly-later
            no_zero_period(final(self).scheduler_queue.view()),                                     //@ C08 #no-zero-period
            final(self).clock.syncs().len() > 0 && final(self).clock.syncs().last() == final(self).time.val(),   //@ C18 #synced-on-current-time
            final(self).executor.n_models() == final(self).model_names@.len(),                      //@ C11 #model-ids-valid
            !final(self).is_terminated ==> final(self).executor.usable(),                                   //@ C11 #executor-usable-unless-terminated
            final(self).time.val() >= old(self).time.val(),                                     //@ C01 #time-monotone
            res is Ok ==> final(self).time.val() == deadline.into_time_spec(MonotonicTime { t: old(self).time.val() }).t,   //@ C01 #reaches-target
            res is Ok ==> final(self).clock.syncs().last() == final(self).time.val(),            //@ C18 #sync-on-target
            runs_consistent(old(self).executor.run_at(), final(self).executor.run_at()),         //@ C18 #synchronized-before-the-models-run
            // a deadline in the past is rejected without any effect (non-fatal)
            deadline.into_time_spec(MonotonicTime { t: old(self).time.val() }).t < old(self).time.val() ==>
                (res matches Err(ExecutionError::InvalidDeadline(_))) && final(self).time.val() == old(self).time.val()     //@ C01,C11 #past-deadline-rejected
                && final(self).is_terminated == old(self).is_terminated && final(self).executor.run_at() == old(self).executor.run_at(),  //@ C01,C11 #past-deadline-rejected
            // C11: on a terminated simulation nothing runs and the time does not move
            old(self).is_terminated ==> res is Err && terminated_noop(*old(self), *final(self)),  //@ C11 #terminated-no-effect
            old(self).is_terminated && deadline.into_time_spec(MonotonicTime { t: old(self).time.val() }).t >= old(self).time.val()
                ==> (res matches Err(ExecutionError::Terminated)),                               //@ C11 #terminated-no-effect
            res matches Err(e) && is_fatal(e) ==> final(self).is_terminated,                     //@ C11 #error-terminates
            res matches Err(e) && !is_fatal(e) ==> final(self).is_terminated == old(self).is_terminated,   //@ C11 #nonfatal-keeps-usable
        //@]
    {
        let now = self.time.read();
        let target_time = deadline.into_time(now);
        if target_time < now {
            return Err(ExecutionError::InvalidDeadline(target_time));
        }
        self.step_until_unchecked(target_time)
    }
//@end

//@item src=nexosim/src/simulation.rs kind=fn name=process within=`impl Simulation` rules=RET,EXECMUT canary=1
    pub fn process(&mut self, action: Action) -> (res: Result<(), ExecutionError>)
        //@[
        requires
            old(self).wf(),
        ensures
            sorted(final(self).scheduler_queue.view()),                                             //@ #queue-sorted
            all_later(final(self).scheduler_queue.view(), final(self).time.val()),                  //@ C01 #pending-strictly-later
            no_zero_period(final(self).scheduler_queue.view()),                                     //@ C08 #no-zero-period
            final(self).clock.syncs().len() > 0 && final(self).clock.syncs().last() == final(self).time.val(),   //@ C18 #synced-on-current-time
            final(self).executor.n_models() == final(self).model_names@.len(),                      //@ C11 #model-ids-valid
            !final(self).is_terminated ==> final(self).executor.usable(),                                   //@ C11 #executor-usable-unless-terminated
            final(self).time.val() == old(self).time.val(),                                     //@ C01,C11 #process-keeps-time
            final(self).scheduler_queue.view() == old(self).scheduler_queue.view(),
            final(self).clock.syncs() == old(self).clock.syncs(),                               //@ C18 #process-no-sync
            !old(self).is_terminated ==> final(self).executor.spawned() == old(self).executor.spawned().push(seq![action.aid()]),
            old(self).is_terminated ==> final(self).executor.spawned() == old(self).executor.spawned(),   //@ C11 #terminated-no-effect
            // the action runs at the current time (on which the clock is synchronised: wf)
            !old(self).is_terminated ==> final(self).executor.run_at()                           //@ C01 #process-runs-at-the-current-time
                == old(self).executor.run_at().push((old(self).time.val(), old(self).time.val() as int)),   //@ C01 #process-runs-at-the-current-time
            old(self).is_terminated ==> (res matches Err(ExecutionError::Terminated))            //@ C11 #terminated-no-effect
                && terminated_noop(*old(self), *final(self)),                                   //@ C11 #terminated-no-effect
            res matches Err(e) ==> final(self).is_terminated && is_fatal(e),                     //@ C11 #error-terminates
            res is Ok ==> final(self).is_terminated == old(self).is_terminated,                  //@ C11 #ok-keeps-state
        //@]
    {
        // A terminated simulation must not spawn anything: its executor may
        // no longer be usable.
        if self.is_terminated {
            return Err(ExecutionError::Terminated);
        }

        action.spawn_and_forget(&mut self.executor);
        self.run()
    }
//@end
}

// ---------- process_event / process_query: the send future is opaque (R8); what matters is spawn + run ----------
pub trait Model: Sized {}
pub trait InputFn<'a, M: Model, T, S>: Send + 'static {}
pub trait ReplierFn<'a, M: Model, T, R, S>: Send + 'static {}
#[verifier::external_body]
#[verifier::reject_recursive_types(M)]
pub struct Address<M: Model> { x: core::marker::PhantomData<M> }
// `async move { sender.send(closure).await }`: one task that delivers one message (aid unknown to the contract)
#[verifier::external_body]
fn opaque_send_future() -> (f: SeqFuture) ensures f.aids().len() == 1 { unimplemented!() }
#[verifier::external_body]
#[verifier::reject_recursive_types(R)]
pub struct SlotReader<R> { x: core::marker::PhantomData<R> }
#[verifier::external_body]
#[verifier::reject_recursive_types(R)]
pub struct SlotWriter<R> { x: core::marker::PhantomData<R> }
pub struct ReadError {}
#[verifier::external_body]
fn slot_pair<R>() -> (r: (SlotWriter<R>, SlotReader<R>)) { unimplemented!() }
impl<R> SlotReader<R> {
    #[verifier::external_body]
    pub fn try_read(&mut self) -> (r: Result<R, ReadError>) { unimplemented!() }
}

// `.map_err(|_| ExecutionError::BadQuery)`
#[verifier::external_body]
fn bad_query_if_unread<R>(r: Result<R, ReadError>) -> (res: Result<R, ExecutionError>)
    ensures r is Ok ==> res is Ok, r is Err ==> (res matches Err(ExecutionError::BadQuery))
{ unimplemented!() }

impl Simulation {
//@item src=nexosim/src/simulation.rs kind=fn name=process_event within=`impl Simulation` rules=DROPSENDER,ASYNCSEND,INTOADDR,GENERICA4,RET props=C01,C11,C18
    pub fn process_event<M, F, T, S, A: Into<Address<M>>>(
        &mut self,
        func: F,
        arg: T,
        address: A,
    ) -> (res: Result<(), ExecutionError>)
    where
        M: Model,
        F: for<'a> InputFn<'a, M, T, S>,
        T: Send + Clone + 'static,
        //@[
        requires
            old(self).wf(),
        ensures
            final(self).wf(),
            final(self).time.val() == old(self).time.val(),                                     //@ C01,C11 #process-keeps-time
            final(self).scheduler_queue.view() == old(self).scheduler_queue.view(),
            final(self).clock.syncs() == old(self).clock.syncs(),                               //@ C18 #process-no-sync
            !old(self).is_terminated ==> final(self).executor.run_at()                           //@ C01 #process-runs-at-the-current-time
                == old(self).executor.run_at().push((old(self).time.val(), old(self).time.val() as int)),   //@ C01 #process-runs-at-the-current-time
            old(self).is_terminated ==> (res matches Err(ExecutionError::Terminated))            //@ C11 #terminated-no-effect
                && terminated_noop(*old(self), *final(self)),                                   //@ C11 #terminated-no-effect
            res matches Err(e) ==> final(self).is_terminated && is_fatal(e),                     //@ C11 #error-terminates
            res is Ok ==> final(self).is_terminated == old(self).is_terminated,                  //@ C11 #ok-keeps-state
        //@]
    {
        // A terminated simulation must not spawn anything: its executor may
        // no longer be usable.
        if self.is_terminated {
            return Err(ExecutionError::Terminated);
        }

        let fut = opaque_send_future();

        self.executor.spawn_and_forget(fut);
        self.run()
    }
//@end

//@item src=nexosim/src/simulation.rs kind=fn name=process_query within=`impl Simulation` rules=DROPSENDER,ASYNCSEND,SLOT,INTOADDR,GENERICA5,MAPUNIT,BADQUERY,RET props=C01,C11,C18
    pub fn process_query<M, F, T, R, S, A: Into<Address<M>>>(
        &mut self,
        func: F,
        arg: T,
        address: A,
    ) -> (res: Result<R, ExecutionError>)
    where
        M: Model,
        F: for<'a> ReplierFn<'a, M, T, R, S>,
        T: Send + Clone + 'static,
        R: Send + 'static,
        //@[
        requires
            old(self).wf(),
        ensures
            final(self).wf(),
            final(self).time.val() == old(self).time.val(),                                     //@ C01,C11 #process-keeps-time
            final(self).scheduler_queue.view() == old(self).scheduler_queue.view(),
            final(self).clock.syncs() == old(self).clock.syncs(),                               //@ C18 #process-no-sync
            !old(self).is_terminated ==> final(self).executor.run_at()                           //@ C01 #process-runs-at-the-current-time
                == old(self).executor.run_at().push((old(self).time.val(), old(self).time.val() as int)),   //@ C01 #process-runs-at-the-current-time
            old(self).is_terminated ==> (res matches Err(ExecutionError::Terminated))            //@ C11 #terminated-no-effect
                && terminated_noop(*old(self), *final(self)),                                   //@ C11 #terminated-no-effect
            res matches Err(e) && is_fatal(e) ==> final(self).is_terminated,                     //@ C11 #error-terminates
            // BadQuery is non-fatal: the simulation stays usable
            res matches Err(e) && !is_fatal(e) ==> final(self).is_terminated == old(self).is_terminated,   //@ C11 #nonfatal-keeps-usable
            res is Ok ==> final(self).is_terminated == old(self).is_terminated,                  //@ C11 #ok-keeps-state
        //@]
    {
        // A terminated simulation must not spawn anything: its executor may
        // no longer be usable.
        if self.is_terminated {
            return Err(ExecutionError::Terminated);
        }

        let (reply_writer, mut reply_reader) = slot_pair();
        let fut = opaque_send_future();

        self.executor.spawn_and_forget(fut);
        self.run()?;

        bad_query_if_unread(reply_reader
            .try_read())
    }
//@end
}

// ---------- SimInit::init (C18: one synchronize on the start time, before any init code runs) ----------
#[verifier::external_body]
pub struct Scheduler { x: u8 }
// Scheduler::new(queue.clone(), time.reader()): a handle sharing the queue and the time (sharing elided, R2)
#[verifier::external_body]
fn scheduler_handle_stub() -> (s: Scheduler) { unimplemented!() }

pub struct SimInit {
    pub executor: Executor,
    pub scheduler_queue: SchedulerQueue,
    pub time: AtomicTime,
    pub clock: ClockBox,
    pub clock_tolerance: Option<Duration>,
    pub timeout: Duration,
    pub observers: Vec<(String, ObserverBox)>,
    pub model_names: Vec<String>,
}

impl Simulation {
//@item src=nexosim/src/simulation.rs kind=fn name=new within=`impl Simulation` id=Simulation::new rules=QUEUEFIELD,CLOCKPARAM,OBSFIELD,PUBCRATENEW,RET props=C18,C11
    pub fn new(
        executor: Executor,
        scheduler_queue: SchedulerQueue,
        time: AtomicTime,
        clock: ClockBox,
        clock_tolerance: Option<Duration>,
        timeout: Duration,
        observers: Vec<(String, ObserverBox)>,
        model_names: Vec<String>,
    ) -> (res: Self)
        //@[
        ensures
            res.executor == executor, res.scheduler_queue == scheduler_queue, res.time == time, res.clock == clock,
            res.clock_tolerance == clock_tolerance, res.observers == observers, res.model_names == model_names,
            !res.is_terminated,                                                                   //@ C11 #starts-not-terminated
        //@]
    {
        Self {
            executor,
            scheduler_queue,
            time,
            clock,
            clock_tolerance,
            timeout,
            observers,
            model_names,
            is_terminated: false,
        }
    }
//@end
}

impl SimInit {
//@item src=nexosim/src/simulation/sim_init.rs kind=fn name=init within=`impl SimInit` id=SimInit::init rules=SCHEDNEW,TIMEWRITEMUT,RET,MUTSELFP props=C18,C01,C11,C16
    pub fn init(
        self,
        start_time: MonotonicTime,
    ) -> (res: Result<(Simulation, Scheduler), ExecutionError>)
        //@[
        requires
            // nothing can have been scheduled before the first Scheduler handle exists
            self.scheduler_queue.view().len() == 0,
            self.executor.n_models() == self.model_names@.len(),
            self.executor.usable(),
        ensures
            // C18: initialisation synchronizes exactly once, on the start time, and only then runs the init code
            res matches Ok((sim, _s)) ==> sim.clock.syncs() == self.clock.syncs().push(start_time.t)     //@ C18 #init-synchronizes-once-on-the-start-time
                && sim.executor.runs() == self.executor.runs() + 1                                      //@ C18 #init-synchronizes-once-on-the-start-time
                && sim.executor.run_at().last().1 == start_time.t,                                      //@ C18 #init-synchronizes-before-the-init-code-runs
            // C16: the models' tasks (init, then the receive loop) run during SimInit::init: the executor is entered exactly once
            res matches Ok((sim, _s)) ==> sim.executor.run_at().len() == self.executor.run_at().len() + 1    //@ C16 #init-code-runs-during-SimInit-init
                && sim.executor.spawned() == self.executor.spawned(),                                         //@ C16 #init-code-runs-during-SimInit-init
            // C01: the init code runs at the start time (what it reads, and what it schedules relative to, is the start time)
            res matches Ok((sim, _s)) ==> sim.executor.run_at().last().0 == start_time.t,               //@ C01 #init-code-runs-at-the-start-time
            // the initial state satisfies the invariant of every public operation, component by component
            res matches Ok((sim, _s)) ==> sim.time.val() == start_time.t,                                //@ C01 #init-starts-at-the-start-time
            res matches Ok((sim, _s)) ==> sorted(sim.scheduler_queue.view()) && all_later(sim.scheduler_queue.view(), sim.time.val()),   //@ C01 #pending-strictly-later
            res matches Ok((sim, _s)) ==> no_zero_period(sim.scheduler_queue.view()),                    //@ C08 #no-zero-period
            res matches Ok((sim, _s)) ==> sim.clock.syncs().len() > 0 && sim.clock.syncs().last() == sim.time.val(),   //@ C18 #synced-on-current-time
            res matches Ok((sim, _s)) ==> sim.executor.n_models() == sim.model_names@.len() && !sim.is_terminated,    //@ C11 #model-ids-valid
            res matches Ok((sim, _s)) ==> sim.executor.usable(),                                           //@ C11 #executor-usable-unless-terminated
        //@]
    {
        let mut self_ = self;
        self_.time.write(start_time);
        self_.clock.synchronize(start_time);

        let scheduler = scheduler_handle_stub();
        let mut simulation = Simulation::new(
            self_.executor,
            self_.scheduler_queue,
            self_.time,
            self_.clock,
            self_.clock_tolerance,
            self_.timeout,
            self_.observers,
            self_.model_names,
        );
        simulation.run()?;

        Ok((simulation, scheduler))
    }
//@end
}

} // verus!
fn main() {}
