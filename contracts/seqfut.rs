//@unit seqfut
//@props C07
//@verus --rlimit 50 --triggers-mode silent
// Unit seqfut: util/seq_futures.rs (SeqFuture::{new,push,poll}). C07: the actions of one (time, origin) group
// are polled strictly in push (= scheduling) order; future i+1 is never polled before future i completed.
//@rule PUBSTRUCT :: ^(\s*)(?:pub(?:\(crate\))? )?struct :: \1pub struct :: R7
//@rule PUBCRATE :: pub\(crate\) fn :: pub fn :: R7
//@rule PINSELF :: mut self: Pin<&mut Self>, cx: &mut Context<'_> :: &mut self, cx: &mut Context :: R15 Pin erasure: Pin<&mut Self> is a transparent wrapper for Unpin targets (Verus rejects the Unpin bound)
//@rule OUTPUT :: Poll<Self::Output> :: Poll<()> :: R7 associated type of the dropped trait header
//@pyrule REBORROW :: inline_self_reborrow() :: R15 the local reborrow (`let this = &mut *self;`, whatever its name) is inlined as `self` (Pin erased; a `return` inside a loop after a local reborrow loses final(self) in Verus)
//@rule THIS :: KEEP-NOTHING-TO-DO :: KEEP-NOTHING-TO-DO :: (subsumed by REBORROW)
//@rule PINPOLL :: Pin::new\(&mut (self\.inner\[self\.idx\])\)\.poll\(cx\) :: \1.poll_(cx) :: R15 Pin::new(x).poll(cx) on an Unpin future is x.poll(cx); the abstract future logs the poll
//@rule WHILELOOP :: while (self\.inner\[self\.idx\]\.poll_\(cx\)\.is_ready\(\)) \{ :: loop { if !(\1) { break; } :: R18 `while C { B }` desugared to `loop { if !(C) { break; } B }` because C has an effect (the poll) the proof must name
//@pyrule PUBFIELDS :: pub_fields() :: R7
//@pyrule RET :: name_ret(r) :: R17
use vstd::prelude::*;
verus! {

pub enum Poll<T> { Ready(T), Pending }
impl<T> Poll<T> {
    pub fn is_ready(&self) -> (r: bool) ensures r == (self is Ready) { match self { Poll::Ready(_) => true, Poll::Pending => false } }
}

// the task context carries the ghost log of every poll issued through it: (future id, completed?)
#[verifier::external_body]
pub struct Context { x: u8 }
impl Context { pub uninterp spec fn trace(&self) -> Seq<(int, bool)>; }

// an abstract Unpin future: polling it logs its identity and whether it completed
pub trait PollLike: Sized {
    spec fn fid(&self) -> int;
    fn poll_(&mut self, cx: &mut Context) -> (r: Poll<()>)
        ensures
            final(self).fid() == old(self).fid(),
            final(cx).trace() == old(cx).trace().push((old(self).fid(), r is Ready));
}

//@item src=nexosim/src/util/seq_futures.rs kind=struct name=SeqFuture rules=PUBSTRUCT,PUBFIELDS
pub struct SeqFuture<F> {
    pub inner: Vec<F>,
    pub idx: usize,
}
//@end

pub open spec fn ids<F: PollLike>(s: Seq<F>) -> Seq<int> { Seq::new(s.len(), |i: int| s[i].fid()) }
// the polls that completing futures a..b (in order) and then, if b < n, one pending poll of b, must log
pub open spec fn expected<F: PollLike>(s: Seq<F>, a: int, b: int, pending: bool) -> Seq<(int, bool)> {
    let done = Seq::new((b - a) as nat, |i: int| (s[a + i].fid(), true));
    if pending { done.push((s[b].fid(), false)) } else { done }
}

impl<F> SeqFuture<F> {
//@item src=nexosim/src/util/seq_futures.rs kind=fn name=new within=`impl<F> SeqFuture<F>` rules=PUBCRATE,RET
    pub fn new() -> (r: Self)
        //@[
        ensures r.inner@.len() == 0, r.idx == 0,
        //@]
    {
        Self {
            inner: Vec::new(),
            idx: 0,
        }
    }
//@end

//@item src=nexosim/src/util/seq_futures.rs kind=fn name=push within=`impl<F> SeqFuture<F>` rules=PUBCRATE
    pub fn push(&mut self, future: F)
        //@[
        ensures final(self).inner@ == old(self).inner@.push(future), final(self).idx == old(self).idx,   //@ C07 #push-appends
        //@]
    {
        self.inner.push(future);
    }
//@end
}

impl<F: PollLike> SeqFuture<F> {
//@item src=nexosim/src/util/seq_futures.rs kind=fn name=poll within=`Future for SeqFuture<F>` rules=PINSELF,OUTPUT,REBORROW,THIS,PINPOLL,WHILELOOP,RET canary=1
    fn poll(&mut self, cx: &mut Context) -> (r: Poll<()>)
        //@[
        requires
            old(self).idx < old(self).inner@.len(),     // polling after completion panics by design (divergence)
            old(self).inner@.len() < usize::MAX,
        ensures
            ids(final(self).inner@) == ids(old(self).inner@),                                   //@ C07 #order-kept
            old(self).idx <= final(self).idx <= old(self).inner@.len(),
            // exactly the futures idx..idx' were completed, in order, each polled once; then the first
            // unfinished one was polled once (Pending) or everything is finished (Ready)
            final(cx).trace() == old(cx).trace() + expected(old(self).inner@, old(self).idx as int, final(self).idx as int, r is Pending),   //@ C07 #polled-sequentially-in-push-order
            (r is Ready) == (final(self).idx == old(self).inner@.len()),                        //@ C07 #ready-after-the-last
        //@]
    {
        //@[
        let ghost s0 = self.inner@;
        let ghost i0 = self.idx as int;
        let ghost t0 = cx.trace();
        proof { assert(expected(s0, i0, i0, false) =~= Seq::<(int, bool)>::empty()); assert(t0 + Seq::<(int, bool)>::empty() =~= t0); }
        //@]

        // The below will panic due to out of bound access when polling after
        // completion: self is intentional.
        loop
            //@[
            invariant_except_break
                cx.trace() == t0 + expected(s0, i0, self.idx as int, false),                    //@ C07 #polled-sequentially-in-push-order
            invariant
                i0 <= self.idx < self.inner@.len(), self.inner@.len() == s0.len(), s0.len() < usize::MAX,
                ids(self.inner@) == ids(s0),                                                    //@ C07 #order-kept
                i0 == old(self).idx, s0 == old(self).inner@, t0 == old(cx).trace(),
            ensures
                ids(self.inner@) == ids(s0), i0 <= self.idx < self.inner@.len(), self.inner@.len() == s0.len(),
                cx.trace() == t0 + expected(s0, i0, self.idx as int, true),                     //@ C07 #polled-sequentially-in-push-order
            decreases self.inner@.len() - self.idx,                                             //@ C07 #poll-terminates
            //@]
        { 
            //@[
            let ghost tr = cx.trace();
            let ghost k = self.idx as int;
            let ghost before = self.inner@;
            proof { assert(ids(before)[k] == ids(s0)[k]); }
            //@]
            if !(self.inner[self.idx].poll_(cx).is_ready()) {
                //@[
                proof {
                    assert(ids(self.inner@) =~= ids(s0)) by {
                        assert forall|i: int| 0 <= i < s0.len() implies self.inner@[i].fid() == s0[i].fid() by {
                            assert(ids(before)[i] == ids(s0)[i]);
                        }
                    }
                    assert(expected(s0, i0, k, true) =~= expected(s0, i0, k, false).push((s0[k].fid(), false)));
                    assert(t0 + expected(s0, i0, k, false).push((s0[k].fid(), false)) =~= (t0 + expected(s0, i0, k, false)).push((s0[k].fid(), false)));
                }
                //@]
                break;
            }
            //@[
            proof {
                assert(ids(self.inner@) =~= ids(s0)) by {
                    assert forall|i: int| 0 <= i < s0.len() implies self.inner@[i].fid() == s0[i].fid() by {
                        assert(ids(before)[i] == ids(s0)[i]);
                    }
                }
                assert(expected(s0, i0, k + 1, false) =~= expected(s0, i0, k, false).push((s0[k].fid(), true)));
                assert(t0 + expected(s0, i0, k, false).push((s0[k].fid(), true)) =~= (t0 + expected(s0, i0, k, false)).push((s0[k].fid(), true)));
            }
            //@]
            self.idx += 1;
            if self.idx == self.inner.len() {
                return Poll::Ready(());
            }
        }

        Poll::Pending
    }
//@end
}

} // verus!
fn main() {}
