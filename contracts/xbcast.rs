//@unit xbcast
//@exec
//@props C14,C17
// BOUNDED executable stand-in for the first sentence of C14 (labelled bounded, never counted as proved): the REAL text of
// ports/output/broadcaster.rs (whole file up to its test modules: BroadcasterInner, EventBroadcaster, QueryBroadcaster,
// BroadcastFuture) and of util/task_set.rs (whole file: the wake-up bookkeeping of the joined sender futures) is cut from
// /repo on every run with NO rewrite rule and compiled by rustc against executable stubs of the two external crates they
// use (diatomic_waker: a waker slot; futures_task: ArcWake / waker_ref over std::task::Wake) and of the `Sender` trait
// (scripted repliers: each accepts or filters out a request, and replies at once or only after its gate was opened and
// its waker called). `main` drives every scenario up to the bound on ONE thread - the interleavings explored are the orders
// in which repliers complete and wake the broadcast future, with and without spurious wake-ups - and compares what the
// query broadcast returns with C14: exactly one reply per connected replier that accepted the request, computed from the
// request, in connection order, only after all of them have replied; never a reply of an earlier query; never a lost
// wake-up (the future completes once every replier has replied and woken it).
#![allow(dead_code, unused_imports, unused_variables, unused_mut, unused_macros, unreachable_code)]
use std::collections::BTreeMap;
use std::panic;

// ------------------------------------------------------------------ executable stubs of the external crates
pub mod diatomic_waker {
    use std::sync::{Arc, Mutex};
    use std::task::Waker;
    // a slot holding the waker of the parent task; `notify` wakes it
    pub struct WakeSink {
        slot: Arc<Mutex<Option<Waker>>>,
    }
    #[derive(Clone)]
    pub struct WakeSource {
        slot: Arc<Mutex<Option<Waker>>>,
    }
    impl WakeSink {
        pub fn new() -> Self {
            WakeSink { slot: Arc::new(Mutex::new(None)) }
        }
        pub fn source(&self) -> WakeSource {
            WakeSource { slot: self.slot.clone() }
        }
        pub fn register(&mut self, waker: &Waker) {
            *self.slot.lock().unwrap() = Some(waker.clone());
        }
        pub fn unregister(&mut self) {
            *self.slot.lock().unwrap() = None;
        }
    }
    impl WakeSource {
        pub fn notify(&self) {
            let w = self.slot.lock().unwrap().clone();
            if let Some(w) = w {
                w.wake_by_ref();
            }
        }
    }
}
pub mod futures_task {
    use std::marker::PhantomData;
    use std::ops::Deref;
    use std::sync::Arc;
    use std::task::{Wake, Waker};
    pub trait ArcWake: Send + Sync {
        fn wake(self: Arc<Self>) {
            Self::wake_by_ref(&self)
        }
        fn wake_by_ref(arc_self: &Arc<Self>);
    }
    struct Adapter<W: ArcWake>(Arc<W>);
    impl<W: ArcWake + 'static> Wake for Adapter<W> {
        fn wake(self: Arc<Self>) {
            W::wake_by_ref(&self.0)
        }
        fn wake_by_ref(self: &Arc<Self>) {
            W::wake_by_ref(&self.0)
        }
    }
    pub struct WakerRef<'a> {
        waker: Waker,
        _m: PhantomData<&'a ()>,
    }
    impl Deref for WakerRef<'_> {
        type Target = Waker;
        fn deref(&self) -> &Waker {
            &self.waker
        }
    }
    pub fn waker_ref<W: ArcWake + 'static>(w: &Arc<W>) -> WakerRef<'_> {
        WakerRef { waker: Waker::from(Arc::new(Adapter(w.clone()))), _m: PhantomData }
    }
}
pub mod loom_exports {
    pub mod sync {
        pub use std::sync::{Arc, Mutex};
        pub mod atomic {
            pub use std::sync::atomic::*;
        }
    }
}
pub mod channel {
    #[derive(Debug, PartialEq, Eq, Clone, Copy)]
    pub struct SendError;
}

// ------------------------------------------------------------------ the real text (cut from /repo on every run)
pub mod util {
    pub mod task_set {
//@item src=nexosim/src/util/task_set.rs kind=filehead name=task_set id=file-task_set
//@end
        // (the two external crates are the stub modules above)
//@helpers src=nexosim/src/util/task_set.rs
        use crate::diatomic_waker;
        use crate::futures_task;
    }
}
pub mod ports {
    pub mod output {
        // stub of ports/output/sender.rs: the Sender trait (its real shape) and a boxed future in place of RecycledFuture
        pub mod sender {
            use std::future::Future;
            use std::pin::Pin;
            use std::task::{Context, Poll};
            use crate::channel::SendError;
            pub struct RecycledFuture<'a, T>(pub Pin<Box<dyn Future<Output = T> + Send + 'a>>);
            impl<T> Future for RecycledFuture<'_, T> {
                type Output = T;
                fn poll(mut self: Pin<&mut Self>, cx: &mut Context<'_>) -> Poll<Self::Output> {
                    self.0.as_mut().poll(cx)
                }
            }
            pub trait Sender<T, R>: Send {
                fn send(&mut self, arg: &T) -> Option<RecycledFuture<'_, Result<R, SendError>>>;
                fn send_owned(&mut self, arg: T) -> Option<RecycledFuture<'_, Result<R, SendError>>> {
                    self.send(&arg)
                }
                fn box_clone(&self) -> Box<dyn Sender<T, R>>;
            }
            impl<T, R> Clone for Box<dyn Sender<T, R>> {
                fn clone(&self) -> Self {
                    self.box_clone()
                }
            }
        }
        pub mod broadcaster {
//@item src=nexosim/src/ports/output/broadcaster.rs kind=filehead name=broadcaster id=file-broadcaster
//@end
//@helpers src=nexosim/src/ports/output/broadcaster.rs
            use crate::diatomic_waker;
        }
//@include inc/xbcast_harness.rs
    }
}

fn main() {
    ports::output::run_all();
}
