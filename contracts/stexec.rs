//@unit stexec
//@props C06,C11
//@verus --rlimit 100 --triggers-mode silent
// Unit stexec: what the SINGLE-THREADED executor reports at the end of a run - `ExecutorInner::run` of executor/st_executor.rs,
// for every in-flight count of an enclosing executor, every count carried over from an earlier run and every outcome of
// the task loop (unbounded; the bounded stand-in xexec runs the same text against scripted tasks and gives the inputs).
// C06: Ok iff the messages sent and not received (carried over + this run) are zero, otherwise UnprocessedMessages with
// exactly that number; the enclosing executor's count is handed back untouched and never leaks in. C11: a panic of a task
// is reported as Panic with the current model id and the original payload, whatever the in-flight count.
// Thread-locals are modelled as fields of a `Tls` value passed explicitly (rule TLSPARAM); the task loop - three nested
// scoped-TLS closures around catch_unwind - is abstracted by `run_tasks` (rule TASKLOOP), which may move the in-flight
// counter by any amount, set the current model id and either return or hand back a panic payload.
//@rule TLSPARAM :: fn run\(&mut self\) :: fn run(&mut self, tls: &mut Tls) :: R2 thread-local state made an explicit parameter
//@rule MSGREPLACE :: channel::THREAD_MSG_COUNT\.replace\( :: tls.replace_count( :: R2 thread_local Cell<isize> as a field of Tls
//@rule MSGGET :: channel::THREAD_MSG_COUNT\.get\(\) :: tls.get_count() :: R2
//@rule MSGSET :: channel::THREAD_MSG_COUNT\.set\( :: tls.set_count( :: R2
//@rule MODELTAKE :: CURRENT_MODEL_ID\.take\(\) :: tls.take_model_id() :: R2 thread_local Cell<ModelId> as a field of Tls
//@rule TRYFROM :: usize::try_from\((\b\w+(?:\.\w+)*)\)\.unwrap\(\) :: isize_to_usize_or_panic(\1) :: R6
//@rule TRYINTO :: (\b\w+(?:\.\w+)*)\.try_into\(\)\.unwrap\(\) :: isize_to_usize_or_panic(\1) :: R6 TryFrom<isize> for usize through a specified stub (a negative count panics = divergence)
//@pyrule TASKLOOP :: abstract_let_block(result ;; SIMULATION_CONTEXT.set ;; run_tasks(self, tls)) :: R8 the task loop (scoped thread-locals, catch_unwind, Runnable::run) is outside Verus: abstracted by a stub that may do anything to the counter and the current model id
//@pyrule RET :: name_ret(res) :: R17
use vstd::prelude::*;
verus! {

#[verifier::external_body]
fn vpanic() -> ! { panic!() }

#[verifier::external_body]
pub struct Payload { x: u8 }
impl Payload { pub uninterp spec fn id(&self) -> int; }
#[derive(Copy, Clone)]
pub struct ModelId(pub usize);
pub enum ExecutorError { UnprocessedMessages(usize), Timeout, Panic(ModelId, Payload) }

// the thread-local state ExecutorInner::run touches, plus a ghost record of what the task loop did
pub struct Tls {
    pub msg_count: isize,
    pub model_id: ModelId,
    pub panicked: Ghost<bool>,          // a task panicked
    pub panic_model: Ghost<ModelId>,    // ... this model's task
    pub payload_id: Ghost<int>,         // ... with this payload
    pub count_after_tasks: Ghost<int>,  // the thread's in-flight counter when the task loop ended
}
impl Tls {
    // LocalKey<Cell<isize>>::replace
    pub fn replace_count(&mut self, v: isize) -> (old_v: isize)
        ensures old_v == old(self).msg_count, final(self).msg_count == v, final(self).model_id == old(self).model_id,
            final(self).panicked == old(self).panicked, final(self).panic_model == old(self).panic_model,
            final(self).payload_id == old(self).payload_id, final(self).count_after_tasks == old(self).count_after_tasks,
    { let o = self.msg_count; self.msg_count = v; o }
    pub fn get_count(&self) -> (v: isize) ensures v == self.msg_count { self.msg_count }
    pub fn set_count(&mut self, v: isize)
        ensures final(self).msg_count == v, final(self).model_id == old(self).model_id,
            final(self).panicked == old(self).panicked, final(self).panic_model == old(self).panic_model,
            final(self).payload_id == old(self).payload_id, final(self).count_after_tasks == old(self).count_after_tasks,
    { self.msg_count = v; }
    // LocalKey<Cell<ModelId>>::take (ModelId::default() is "none" = usize::MAX)
    pub fn take_model_id(&mut self) -> (m: ModelId)
        ensures m == old(self).model_id, final(self).model_id.0 == usize::MAX, final(self).msg_count == old(self).msg_count,
            final(self).panicked == old(self).panicked, final(self).panic_model == old(self).panic_model,
            final(self).payload_id == old(self).payload_id, final(self).count_after_tasks == old(self).count_after_tasks,
    { let m = self.model_id; self.model_id = ModelId(usize::MAX); m }
}
pub struct ExecutorContext { pub msg_count: isize }
pub struct ExecutorInner { pub context: ExecutorContext }

// `usize::try_from(x).unwrap()`: the value when it is non-negative, a panic otherwise
fn isize_to_usize_or_panic(x: isize) -> (r: usize)
    ensures x >= 0, r as int == x as int
{ if x < 0 { vpanic() } else { x as usize } }

// The task loop. ASSUMPTION (A-exec for this unit): it runs tasks; every successful Sender::send adds one to the thread's
// counter and every message taken by Receiver::recv subtracts one (channel.rs, exercised by stand-in xchan); a task that
// panics leaves the id of its model in CURRENT_MODEL_ID (simulation.rs ModelFuture::poll) and its payload is what
// catch_unwind hands back. Nothing else is assumed: the counter may end anywhere. What IS required of the caller: the
// counter the tasks start from is this executor's own count - not that of an enclosing executor.
#[verifier::external_body]
fn run_tasks(inner: &mut ExecutorInner, tls: &mut Tls) -> (r: Result<(), Payload>)
    requires
        old(tls).msg_count == old(inner).context.msg_count,                    //@ C06 #tasks-start-from-this-executors-own-count
    ensures
        final(inner).context.msg_count == old(inner).context.msg_count,
        final(tls).count_after_tasks@ == final(tls).msg_count as int,
        (r is Err) == final(tls).panicked@,
        r matches Err(p) ==> p.id() == final(tls).payload_id@ && final(tls).model_id == final(tls).panic_model@,
{ unimplemented!() }

impl ExecutorInner {
//@item src=nexosim/src/executor/st_executor.rs kind=fn name=run within=`impl ExecutorInner` rules=TLSPARAM,MSGREPLACE,MSGGET,MSGSET,MODELTAKE,TRYFROM,TRYINTO,TASKLOOP,RET canary=1
    fn run(&mut self, tls: &mut Tls) -> (res: Result<(), ExecutorError>)
        //@[
        ensures
            // C11: a task's panic is reported as Panic - with that task's model and the original payload - whatever the
            // in-flight counters say, and nothing else is
            (res matches Err(ExecutorError::Panic(_, _))) == final(tls).panicked@,                                          //@ C11 #panic-reported-as-panic
            res matches Err(ExecutorError::Panic(m, p)) ==> m == final(tls).panic_model@ && p.id() == final(tls).payload_id@,   //@ C11 #panic-names-the-panicking-model-and-payload
            // C06: without a panic, this executor's count is the thread's counter at the end of the task loop (which started
            // from the count carried over); Ok iff it is zero, otherwise UnprocessedMessages with exactly that number
            !final(tls).panicked@ ==> final(self).context.msg_count as int == final(tls).count_after_tasks@,                 //@ C06 #count-is-carried-plus-this-run
            !final(tls).panicked@ ==> ((res is Ok) == (final(tls).count_after_tasks@ == 0)),                                  //@ C06 #ok-exactly-when-everything-was-processed
            res matches Err(ExecutorError::UnprocessedMessages(n)) ==> n > 0 && n as int == final(tls).count_after_tasks@,     //@ C06 #unprocessed-count-exact
            // C06: the enclosing executor's count is handed back untouched (and never leaked in: precondition of run_tasks)
            // - on EVERY exit, a panic included: a handler of the enclosing simulation may catch the nested run's error and go on
            final(tls).msg_count == old(tls).msg_count,                                                                        //@ C06 #enclosing-count-preserved
            !(res matches Err(ExecutorError::Timeout)),
        //@]
    {
        // In case this executor is nested in another one, reset the counter of in-flight messages.
        let msg_count_stash = tls.replace_count(self.context.msg_count);

        let result = run_tasks(self, tls);

        // Return the panic payload, if any.
        if let Err(payload) = result {
            let model_id = tls.take_model_id();

            return Err(ExecutorError::Panic(model_id, payload));
        }

        // Check for unprocessed messages.
        self.context.msg_count = tls.replace_count(msg_count_stash);
        if self.context.msg_count != 0 {
            let msg_count: usize = isize_to_usize_or_panic(self.context.msg_count);

            return Err(ExecutorError::UnprocessedMessages(msg_count));
        }

        Ok(())
    }
//@end
}

} // verus!
fn main() {}
