//@unit xsched
//@exec
//@props C07,C08,C09,C10
// BOUNDED executable stand-in for the scheduling requests and the four action kinds (labelled bounded, never counted as
// proved). The REAL text of GlobalScheduler::{new, time, schedule_from, schedule_event_from, schedule_keyed_event_from,
// schedule_periodic_event_from, schedule_keyed_periodic_event_from}, the public handle `Scheduler` (all its methods), ActionKey, AutoActionKey, SchedulingError, Action,
// ActionInner, PeriodicAction, KeyedOnceAction, KeyedPeriodicAction, process_event, send_keyed_event (simulation/scheduler.rs),
// the InputFn trait with its plain-function impl (ports/input/model_fn.rs) and util/priority_queue.rs is cut from /repo on
// every run with NO rewrite rule and compiled by rustc against the executable stubs below. The stubs that carry behaviour:
// `Sender::send` DELIVERS at once (it runs the message closure on the model and awaits the returned future), the time cell
// is a plain atomic, `OnceAction` (a #[pin_project] type in /repo) is a boxed future. `main` issues every request up to
// the bound and compares what happens with the statements of C08 (accepted iff deadline > now and period non-zero; a
// rejected request has no effect; an accepted one queues exactly the request), C10 (every later occurrence carries the
// requested period) and C09 (the key cancels the queued action and all its later occurrences, and a message already handed
// to the model is dropped there if its key was cancelled in the meantime).
#![allow(dead_code, unused_imports, unused_variables, unused_mut, unused_macros, unreachable_code)]
use std::cell::UnsafeCell;
use std::collections::*;
use std::error::Error;
use std::future::{ready, Future, Ready};
use std::hash::{Hash, Hasher};
use std::marker::PhantomData;
use std::panic;
use std::pin::Pin;
use std::sync::atomic::{AtomicBool, AtomicU64, Ordering};
use std::sync::{Arc, Mutex};
use std::task::{Context as TaskContext, Poll, RawWaker, RawWakerVTable, Waker};
use std::time::Duration;
use std::{cmp, fmt, mem, ptr};

// ------------------------------------------------------------------ executable stubs
#[derive(Copy, Clone, Debug, PartialEq, Eq, PartialOrd, Ord, Hash)]
pub struct MonotonicTime(pub u64); // whole seconds
impl MonotonicTime {
    pub const MAX: MonotonicTime = MonotonicTime(u64::MAX);
    pub const EPOCH: MonotonicTime = MonotonicTime(0);
    pub fn checked_add(self, d: Duration) -> Option<Self> {
        self.0.checked_add(d.as_secs()).map(MonotonicTime)
    }
}
impl std::ops::Add<Duration> for MonotonicTime {
    type Output = MonotonicTime;
    fn add(self, d: Duration) -> MonotonicTime {
        MonotonicTime(self.0.checked_add(d.as_secs()).expect("time overflow"))
    }
}
pub trait Deadline {
    fn into_time(self, now: MonotonicTime) -> MonotonicTime;
}
impl Deadline for Duration {
    fn into_time(self, now: MonotonicTime) -> MonotonicTime {
        now + self
    }
}
impl Deadline for MonotonicTime {
    fn into_time(self, _: MonotonicTime) -> MonotonicTime {
        self
    }
}
#[derive(Clone)]
pub struct AtomicTimeReader(pub Arc<AtomicU64>);
impl AtomicTimeReader {
    pub fn read(&self) -> MonotonicTime {
        MonotonicTime(self.0.load(Ordering::Relaxed))
    }
    pub fn try_read(&self) -> Result<MonotonicTime, ()> {
        Ok(self.read())
    }
}
pub trait Model: Sized + Send + 'static {}
pub struct Context<M>(PhantomData<M>);
pub struct SendError;
pub mod markers {
    pub struct WithoutArguments;
    pub struct WithoutContext;
    pub struct WithContext;
}
// recycle_box: a plain box in this stand-in
pub struct RecycleBox<T: ?Sized>(pub Box<T>);
impl<T> RecycleBox<T> {
    pub fn new(t: T) -> Self {
        RecycleBox(Box::new(t))
    }
}
impl RecycleBox<()> {
    pub fn recycle<U>(_b: RecycleBox<()>, u: U) -> RecycleBox<U> {
        RecycleBox(Box::new(u))
    }
}
macro_rules! coerce_box {
    ($e:expr) => {{
        let b = $e;
        RecycleBox(b.0)
    }};
}
// the mailbox of a model: in this stand-in a message is DELIVERED as soon as it is sent
pub struct Shared<M>(UnsafeCell<M>);
unsafe impl<M> Send for Shared<M> {}
unsafe impl<M> Sync for Shared<M> {}
pub struct Sender<M: Model>(pub Arc<Shared<M>>);
impl<M: Model> Clone for Sender<M> {
    fn clone(&self) -> Self {
        Sender(self.0.clone())
    }
}
impl<M: Model> Sender<M> {
    pub fn new(m: M) -> Self {
        Sender(Arc::new(Shared(UnsafeCell::new(m))))
    }
    pub fn channel_id(&self) -> usize {
        Arc::as_ptr(&self.0) as usize
    }
    pub fn with<R>(&self, f: impl FnOnce(&mut M) -> R) -> R {
        f(unsafe { &mut *self.0 .0.get() })
    }
    pub(crate) async fn send<F>(&self, msg_fn: F) -> Result<(), SendError>
    where
        F: for<'a> FnOnce(&'a mut M, &'a mut Context<M>, RecycleBox<()>) -> RecycleBox<dyn Future<Output = ()> + Send + 'a> + Send + 'static,
    {
        burn();
        let model: &mut M = unsafe { &mut *self.0 .0.get() };
        let mut cx = Context(PhantomData);
        let fut = msg_fn(model, &mut cx, RecycleBox::new(()));
        Box::into_pin(fut.0).await;
        Ok(())
    }
}
pub struct Address<M: Model>(pub(crate) Sender<M>);
impl<M: Model> Clone for Address<M> {
    fn clone(&self) -> Self {
        Self(self.0.clone())
    }
}
impl<M: Model> From<&Address<M>> for Address<M> {
    fn from(a: &Address<M>) -> Self {
        a.clone()
    }
}

// fuel: every stub call burns some, so that a mutated loop cannot hang the check
static FUEL: AtomicU64 = AtomicU64::new(0);
fn burn() {
    if FUEL.fetch_add(1, Ordering::Relaxed) > 10_000 {
        panic!("out of fuel");
    }
}
fn noop_waker() -> Waker {
    fn clone(_: *const ()) -> RawWaker {
        RawWaker::new(std::ptr::null(), &VT)
    }
    fn noop(_: *const ()) {}
    static VT: RawWakerVTable = RawWakerVTable::new(clone, noop, noop, noop);
    unsafe { Waker::from_raw(RawWaker::new(std::ptr::null(), &VT)) }
}
fn block_on<F: Future>(f: F) -> Option<F::Output> {
    let waker = noop_waker();
    let mut cx = TaskContext::from_waker(&waker);
    let mut f = Box::pin(f);
    for _ in 0..100 {
        burn();
        if let Poll::Ready(x) = f.as_mut().poll(&mut cx) {
            return Some(x);
        }
    }
    None
}
// the executor runs what is spawned at once
pub struct Executor;
impl Executor {
    pub fn spawn_and_forget<T>(&self, future: T)
    where
        T: Future + Send + 'static,
        T::Output: Send + 'static,
    {
        let _ = block_on(future);
    }
}
// OnceAction is a #[pin_project] future in /repo (external proc-macro): here a boxed future with the same ActionInner answers
pub(crate) struct OnceAction<F> {
    fut: Pin<Box<F>>,
}
impl<F> OnceAction<F>
where
    F: Future<Output = ()> + Send + 'static,
{
    pub(crate) fn new(fut: F) -> Self {
        OnceAction { fut: Box::pin(fut) }
    }
}
impl<F> ActionInner for OnceAction<F>
where
    F: Future<Output = ()> + Send + 'static,
{
    fn is_cancelled(&self) -> bool {
        false
    }
    fn next(&self) -> Option<(Box<dyn ActionInner>, Duration)> {
        None
    }
    fn into_future(self: Box<Self>) -> Pin<Box<dyn Future<Output = ()> + Send>> {
        self.fut
    }
    fn spawn_and_forget(self: Box<Self>, executor: &Executor) {
        executor.spawn_and_forget(self.fut);
    }
}

// ------------------------------------------------------------------ the real text (cut from /repo on every run)
mod pq {
//@item src=nexosim/src/util/priority_queue.rs kind=filehead name=priority_queue id=file-priority_queue
//@end
}
use pq::PriorityQueue;
//@item src=nexosim/src/ports/input/model_fn.rs kind=trait name=InputFn
//@end
//@item src=nexosim/src/ports/input/model_fn.rs kind=impl name=`InputFn<'a, M, T, markers::WithoutContext> for F` id=impl-InputFn-WithoutContext
//@end
//@item src=nexosim/src/simulation/scheduler.rs kind=struct name=AutoActionKey
//@end
//@item src=nexosim/src/simulation/scheduler.rs kind=impl name=`Drop for AutoActionKey` id=impl-Drop-AutoActionKey
//@end
#[derive(Clone, Debug)]
//@item src=nexosim/src/simulation/scheduler.rs kind=struct name=ActionKey
//@end
//@item src=nexosim/src/simulation/scheduler.rs kind=impl name=`^impl ActionKey ` id=impl-ActionKey
//@end
#[derive(Debug, PartialEq, Eq, Clone, Copy)]
//@item src=nexosim/src/simulation/scheduler.rs kind=enum name=SchedulingError
//@end
//@item src=nexosim/src/simulation/scheduler.rs kind=struct name=Action
//@end
//@item src=nexosim/src/simulation/scheduler.rs kind=impl name=`^impl Action ` id=impl-Action
//@end
//@item src=nexosim/src/simulation/scheduler.rs kind=type name=SchedulerQueue
//@end
//@item src=nexosim/src/simulation/scheduler.rs kind=const name=GLOBAL_SCHEDULER_ORIGIN_ID
//@end
#[derive(Clone)]
//@item src=nexosim/src/simulation/scheduler.rs kind=struct name=Scheduler
//@end
//@item src=nexosim/src/simulation/scheduler.rs kind=impl name=`^impl Scheduler ` id=impl-Scheduler
//@end
#[derive(Clone)]
//@item src=nexosim/src/simulation/scheduler.rs kind=struct name=GlobalScheduler
//@end
//@item src=nexosim/src/simulation/scheduler.rs kind=impl name=`^impl GlobalScheduler ` id=impl-GlobalScheduler
//@end
//@item src=nexosim/src/simulation/scheduler.rs kind=trait name=ActionInner
//@end
//@item src=nexosim/src/simulation/scheduler.rs kind=struct name=PeriodicAction
//@end
//@item src=nexosim/src/simulation/scheduler.rs kind=impl name=`<G, F> PeriodicAction<G, F>` id=impl-PeriodicAction
//@end
//@item src=nexosim/src/simulation/scheduler.rs kind=impl name=`ActionInner for PeriodicAction<G, F>` id=impl-ActionInner-PeriodicAction
//@end
//@item src=nexosim/src/simulation/scheduler.rs kind=struct name=KeyedOnceAction
//@end
//@item src=nexosim/src/simulation/scheduler.rs kind=impl name=`<G, F> KeyedOnceAction<G, F>` id=impl-KeyedOnceAction
//@end
//@item src=nexosim/src/simulation/scheduler.rs kind=impl name=`ActionInner for KeyedOnceAction<G, F>` id=impl-ActionInner-KeyedOnceAction
//@end
//@item src=nexosim/src/simulation/scheduler.rs kind=struct name=KeyedPeriodicAction
//@end
//@item src=nexosim/src/simulation/scheduler.rs kind=impl name=`<G, F> KeyedPeriodicAction<G, F>` id=impl-KeyedPeriodicAction
//@end
//@item src=nexosim/src/simulation/scheduler.rs kind=impl name=`ActionInner for KeyedPeriodicAction<G, F>` id=impl-ActionInner-KeyedPeriodicAction
//@end
//@item src=nexosim/src/simulation/scheduler.rs kind=fn name=process_event
//@end
//@item src=nexosim/src/simulation/scheduler.rs kind=fn name=send_keyed_event
//@end

// ------------------------------------------------------------------ requests, expectations, comparison
//@include inc/xsched_harness.rs
