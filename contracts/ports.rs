//@unit ports
//@props C14
//@verus --rlimit 50 --triggers-mode silent
// Unit ports: the thin wrappers of nexosim/src/ports/output.rs around the shared connection list:
// Output::{connect, connect_sink, send}, Requestor::{connect, send}. C14 (second sentence): connections are added to the
// value ALL clones share (CachedRwLock::write) and sends broadcast over a copy synchronised with that shared value
// (CachedRwLock::write_scratchpad). The CachedRwLock contract assumed here is proved on the real file by Kani (group crw).
// The map / filter_map variants take `Fn` closures and are not under contract.
//@rule PUBSTRUCT :: ^(\s*)(?:pub(?:\(crate\))? )?struct :: \1pub struct :: R7
//@rule INTOADDR :: address: impl Into<Address<M>> :: address: A :: R14 impl-Trait argument as a named generic
//@rule GENERICA3 :: <M, F, S>\( :: <M, F, S, A: Into<Address<M>>>( :: R14
//@rule GENERICA5 :: <M, C, F, U, S>\( :: <M, C, F, U, S, A: Into<Address<M>>>( :: R14
//@rule GENERICA7 :: <M, C, D, F, U, Q, S>\( :: <M, C, D, F, U, Q, S, A: Into<Address<M>>>( :: R14
//@rule RETITER :: -> impl Iterator<Item = R> \+ '_ :: -> ReplyIter<R> :: R7 opaque return type as a stub type
//@rule THROW :: \.unwrap_or_throw\(\) :: .unwrap_or_throw_() :: R10 (panics with the error payload = divergence)
//@pyrule PUBFIELDS :: pub_fields() :: R7
//@pyrule SENDER :: abstract_sender_ctor() :: R8 port senders are opaque
//@pyrule DEASYNC :: de_async() :: R8 awaited broadcast futures are opaque and complete
//@pyrule RET :: name_ret(res) :: R17
use vstd::prelude::*;
verus! {

pub trait Model: Sized {}
pub trait InputFn<'a, M: Model, T, S>: Send + 'static {}
pub trait ReplierFn<'a, M: Model, T, R, S>: Send + 'static {}
#[verifier::external_body]
#[verifier::reject_recursive_types(M)]
pub struct Address<M: Model> { x: core::marker::PhantomData<M> }
pub trait EventSink<T> {}

// an opaque connection (InputSender, EventSinkSender, ReplierSender, …) with an identity
#[verifier::external_body]
pub struct SenderBox { x: u8 }
impl SenderBox { pub uninterp spec fn id(&self) -> int; }
#[verifier::external_body]
fn mk_sender() -> (s: SenderBox) { unimplemented!() }

// the connection list
#[verifier::external_body]
#[verifier::reject_recursive_types(T)]
pub struct EventBroadcaster<T> { x: core::marker::PhantomData<T> }
#[verifier::external_body]
#[verifier::reject_recursive_types(T)]
#[verifier::reject_recursive_types(R)]
pub struct QueryBroadcaster<T, R> { x: core::marker::PhantomData<(T, R)> }
#[verifier::external_body]
pub struct BroadcastDone { x: u8 }
impl BroadcastDone {
    pub uninterp spec fn over(&self) -> Seq<int>;   // the connections the broadcast went to
    #[verifier::external_body]
    pub fn unwrap_or_throw_(self) { unimplemented!() }
}
#[verifier::external_body]
#[verifier::reject_recursive_types(R)]
pub struct ReplyIter<R> { x: core::marker::PhantomData<R> }
impl<R> ReplyIter<R> { pub uninterp spec fn over(&self) -> Seq<int>; }
#[verifier::external_body]
#[verifier::reject_recursive_types(R)]
pub struct QueryDone<R> { x: core::marker::PhantomData<R> }
impl<R> QueryDone<R> {
    pub uninterp spec fn over(&self) -> Seq<int>;
    #[verifier::external_body]
    pub fn unwrap_or_throw_(self) -> (r: ReplyIter<R>) ensures r.over() == self.over() { unimplemented!() }
}
impl<T> EventBroadcaster<T> {
    pub uninterp spec fn senders(&self) -> Seq<int>;
    #[verifier::external_body]
    pub fn add(&mut self, s: SenderBox) ensures final(self).senders() == old(self).senders().push(s.id()) { unimplemented!() }
    // broadcasts to every connection of THIS list, in order (not decided here: see C03/C14 first sentence)
    #[verifier::external_body]
    pub fn broadcast(&mut self, arg: T) -> (r: BroadcastDone) ensures r.over() == old(self).senders(), final(self).senders() == old(self).senders() { unimplemented!() }
}
impl<T, R> QueryBroadcaster<T, R> {
    pub uninterp spec fn senders(&self) -> Seq<int>;
    #[verifier::external_body]
    pub fn add(&mut self, s: SenderBox) ensures final(self).senders() == old(self).senders().push(s.id()) { unimplemented!() }
    #[verifier::external_body]
    pub fn broadcast(&mut self, arg: T) -> (r: QueryDone<R>) ensures r.over() == old(self).senders(), final(self).senders() == old(self).senders() { unimplemented!() }
}

// CachedRwLock: contract proved on the real file by Kani (group crw, all values, sequential):
//  * write(): exclusive access to the value shared by ALL clones;
//  * write_scratchpad(): a private copy that is first synchronised with the shared value; edits never reach the shared one.
#[verifier::external_body]
#[verifier::reject_recursive_types(B)]
pub struct CachedRwLock<B> { x: core::marker::PhantomData<B> }
pub enum LockResult<G> { Ok(G), Err(G) }
impl<G> LockResult<G> {
    pub fn unwrap(self) -> (g: G)
        requires self is Ok
        ensures self == LockResult::Ok(g)
    { match self { LockResult::Ok(g) => g, LockResult::Err(g) => g } }
}
impl<B> CachedRwLock<B> {
    pub uninterp spec fn shared(&self) -> B;
    #[verifier::external_body]
    pub fn write(&mut self) -> (r: LockResult<&mut B>)
        ensures r matches LockResult::Ok(g) && *g == old(self).shared() && *final(g) == final(self).shared()
    { unimplemented!() }
    // the private copy WITHOUT synchronisation: may be stale (nothing is known about it)
    #[verifier::external_body]
    pub fn write_scratchpad_unsync(&mut self) -> (g: &mut B)
        ensures final(self).shared() == old(self).shared()
    { unimplemented!() }
    #[verifier::external_body]
    pub fn write_scratchpad(&mut self) -> (r: LockResult<&mut B>)
        ensures r matches LockResult::Ok(g) && *g == old(self).shared() && final(self).shared() == old(self).shared()
    { unimplemented!() }
}

#[verifier::reject_recursive_types(T)]
//@item src=nexosim/src/ports/output.rs kind=struct name=Output rules=PUBSTRUCT,PUBFIELDS
pub struct Output<T: Clone + Send + 'static> {
    pub broadcaster: CachedRwLock<EventBroadcaster<T>>,
}
//@end
#[verifier::reject_recursive_types(T)]
#[verifier::reject_recursive_types(R)]
//@item src=nexosim/src/ports/output.rs kind=struct name=Requestor rules=PUBSTRUCT,PUBFIELDS
pub struct Requestor<T: Clone + Send + 'static, R: Send + 'static> {
    pub broadcaster: CachedRwLock<QueryBroadcaster<T, R>>,
}
//@end

impl<T: Clone + Send + 'static> Output<T> {
//@item src=nexosim/src/ports/output.rs kind=fn name=connect within=`impl<T: Clone \+ Send \+ 'static> Output<T>` id=Output::connect rules=INTOADDR,GENERICA3,SENDER canary=1
    pub fn connect<M, F, S, A: Into<Address<M>>>(&mut self, input: F, address: A)
    where
        M: Model,
        F: for<'a> InputFn<'a, M, T, S> + Clone,
        S: Send + 'static,
        //@[
        ensures
            // the connection is added to the list that ALL clones of the port share
            exists|id: int| final(self).broadcaster.shared().senders() == #[trigger] old(self).broadcaster.shared().senders().push(id),   //@ #connection-added-to-the-shared-list
        //@]
    {
        let sender = mk_sender();
        self.broadcaster.write().unwrap().add(sender);
    }
//@end

//@item src=nexosim/src/ports/output.rs kind=fn name=connect_sink within=`impl<T: Clone \+ Send \+ 'static> Output<T>` id=Output::connect_sink rules=SENDER
    pub fn connect_sink<S: EventSink<T>>(&mut self, sink: &S)
        //@[
        ensures
            exists|id: int| final(self).broadcaster.shared().senders() == #[trigger] old(self).broadcaster.shared().senders().push(id),   //@ #connection-added-to-the-shared-list
        //@]
    {
        let sender = mk_sender();
        self.broadcaster.write().unwrap().add(sender)
    }
//@end

//@item src=nexosim/src/ports/output.rs kind=fn name=map_connect within=`impl<T: Clone \+ Send \+ 'static> Output<T>` id=Output::map_connect rules=INTOADDR,GENERICA5,SENDER
    pub fn map_connect<M, C, F, U, S, A: Into<Address<M>>>(&mut self, map: C, input: F, address: A)
    where
        M: Model,
        C: Fn(&T) -> U + Send + Sync + 'static,
        F: for<'a> InputFn<'a, M, U, S> + Clone,
        U: Send + 'static,
        S: Send + 'static,
        //@[
        ensures
            exists|id: int| final(self).broadcaster.shared().senders() == #[trigger] old(self).broadcaster.shared().senders().push(id),   //@ #connection-added-to-the-shared-list
        //@]
    {
        let sender = mk_sender();
        self.broadcaster.write().unwrap().add(sender);
    }
//@end

//@item src=nexosim/src/ports/output.rs kind=fn name=map_connect_sink within=`impl<T: Clone \+ Send \+ 'static> Output<T>` id=Output::map_connect_sink rules=SENDER
    pub fn map_connect_sink<C, U, S>(&mut self, map: C, sink: &S)
    where
        C: Fn(&T) -> U + Send + Sync + 'static,
        U: Send + 'static,
        S: EventSink<U>,
        //@[
        ensures
            exists|id: int| final(self).broadcaster.shared().senders() == #[trigger] old(self).broadcaster.shared().senders().push(id),   //@ #connection-added-to-the-shared-list
        //@]
    {
        let sender = mk_sender();
        self.broadcaster.write().unwrap().add(sender);
    }
//@end

//@item src=nexosim/src/ports/output.rs kind=fn name=filter_map_connect within=`impl<T: Clone \+ Send \+ 'static> Output<T>` id=Output::filter_map_connect rules=INTOADDR,GENERICA5,SENDER
    pub fn filter_map_connect<M, C, F, U, S, A: Into<Address<M>>>(
        &mut self,
        filter_map: C,
        input: F,
        address: A,
    ) where
        M: Model,
        C: Fn(&T) -> Option<U> + Send + Sync + 'static,
        F: for<'a> InputFn<'a, M, U, S> + Clone,
        U: Send + 'static,
        S: Send + 'static,
        //@[
        ensures
            exists|id: int| final(self).broadcaster.shared().senders() == #[trigger] old(self).broadcaster.shared().senders().push(id),   //@ #connection-added-to-the-shared-list
        //@]
    {
        let sender = mk_sender();
        self.broadcaster.write().unwrap().add(sender);
    }
//@end

//@item src=nexosim/src/ports/output.rs kind=fn name=filter_map_connect_sink within=`impl<T: Clone \+ Send \+ 'static> Output<T>` id=Output::filter_map_connect_sink rules=SENDER
    pub fn filter_map_connect_sink<C, U, S>(&mut self, filter_map: C, sink: &S)
    where
        C: Fn(&T) -> Option<U> + Send + Sync + 'static,
        U: Send + 'static,
        S: EventSink<U>,
        //@[
        ensures
            exists|id: int| final(self).broadcaster.shared().senders() == #[trigger] old(self).broadcaster.shared().senders().push(id),   //@ #connection-added-to-the-shared-list
        //@]
    {
        let sender = mk_sender();
        self.broadcaster.write().unwrap().add(sender);
    }
//@end

//@item src=nexosim/src/ports/output.rs kind=fn name=send within=`impl<T: Clone \+ Send \+ 'static> Output<T>` id=Output::send rules=DEASYNC,THROW
    pub fn send(&mut self, arg: T)
        //@[
        ensures
            final(self).broadcaster.shared() == old(self).broadcaster.shared(),                 //@ #send-does-not-change-the-shared-list
        //@]
    {
        let broadcaster = self.broadcaster.write_scratchpad().unwrap();
        //@[
        // the send goes to exactly the connections of the shared list, whichever clone added them
        proof { assert(broadcaster.senders() == old(self).broadcaster.shared().senders()); }   //@ #send-uses-the-shared-list
        //@]
        broadcaster.broadcast(arg).unwrap_or_throw_();
    }
//@end
}

impl<T: Clone + Send + 'static, R: Send + 'static> Requestor<T, R> {
//@item src=nexosim/src/ports/output.rs kind=fn name=connect within=`impl<T: Clone \+ Send \+ 'static, R: Send \+ 'static> Requestor<T, R>` id=Requestor::connect rules=INTOADDR,GENERICA3,SENDER
    pub fn connect<M, F, S, A: Into<Address<M>>>(&mut self, replier: F, address: A)
    where
        M: Model,
        F: for<'a> ReplierFn<'a, M, T, R, S> + Clone,
        S: Send + 'static,
        //@[
        ensures
            exists|id: int| final(self).broadcaster.shared().senders() == #[trigger] old(self).broadcaster.shared().senders().push(id),   //@ #connection-added-to-the-shared-list
        //@]
    {
        let sender = mk_sender();
        self.broadcaster.write().unwrap().add(sender);
    }
//@end

//@item src=nexosim/src/ports/output.rs kind=fn name=map_connect within=`impl<T: Clone \+ Send \+ 'static, R: Send \+ 'static> Requestor<T, R>` id=Requestor::map_connect rules=INTOADDR,GENERICA7,SENDER
    pub fn map_connect<M, C, D, F, U, Q, S, A: Into<Address<M>>>(
        &mut self,
        query_map: C,
        reply_map: D,
        replier: F,
        address: A,
    ) where
        M: Model,
        C: Fn(&T) -> U + Send + Sync + 'static,
        D: Fn(Q) -> R + Send + Sync + 'static,
        F: for<'a> ReplierFn<'a, M, U, Q, S> + Clone,
        U: Send + 'static,
        Q: Send + 'static,
        S: Send + 'static,
        //@[
        ensures
            exists|id: int| final(self).broadcaster.shared().senders() == #[trigger] old(self).broadcaster.shared().senders().push(id),   //@ #connection-added-to-the-shared-list
        //@]
    {
        let sender = mk_sender();
        self.broadcaster.write().unwrap().add(sender);
    }
//@end

//@item src=nexosim/src/ports/output.rs kind=fn name=filter_map_connect within=`impl<T: Clone \+ Send \+ 'static, R: Send \+ 'static> Requestor<T, R>` id=Requestor::filter_map_connect rules=INTOADDR,GENERICA7,SENDER
    pub fn filter_map_connect<M, C, D, F, U, Q, S, A: Into<Address<M>>>(
        &mut self,
        query_filter_map: C,
        reply_map: D,
        replier: F,
        address: A,
    ) where
        M: Model,
        C: Fn(&T) -> Option<U> + Send + Sync + 'static,
        D: Fn(Q) -> R + Send + Sync + 'static,
        F: for<'a> ReplierFn<'a, M, U, Q, S> + Clone,
        U: Send + 'static,
        Q: Send + 'static,
        S: Send + 'static,
        //@[
        ensures
            exists|id: int| final(self).broadcaster.shared().senders() == #[trigger] old(self).broadcaster.shared().senders().push(id),   //@ #connection-added-to-the-shared-list
        //@]
    {
        let sender = mk_sender();
        self.broadcaster.write().unwrap().add(sender);
    }
//@end

//@item src=nexosim/src/ports/output.rs kind=fn name=send within=`impl<T: Clone \+ Send \+ 'static, R: Send \+ 'static> Requestor<T, R>` id=Requestor::send rules=DEASYNC,THROW,RETITER,RET
    pub fn send(&mut self, arg: T) -> (res: ReplyIter<R>)
        //@[
        ensures
            final(self).broadcaster.shared() == old(self).broadcaster.shared(),                 //@ #send-does-not-change-the-shared-list
            // the query goes to exactly the repliers of the shared list, whichever clone connected them
            res.over() == old(self).broadcaster.shared().senders(),                             //@ #send-uses-the-shared-list
        //@]
    {
        self.broadcaster
            .write_scratchpad()
            .unwrap()
            .broadcast(arg)
            .unwrap_or_throw_()
    }
//@end
}

} // verus!
fn main() {}
