#!/bin/bash
# ./allseeds.sh [pattern] [-j N]: runs every seeded change matching the glob pattern (default *) against the checks of the
# property it breaks (meta.json "property"), N at a time (default 3), each on a scratch copy of /repo (seedrun.sh), and
# prints one RESULTS line per seed: VIOL=[..] UNDEC=[..] :: failed obligations.  /repo itself is never touched.
cd "$(dirname "$0")"
pat="${1:-*}"; j=3; [ "$2" = "-j" ] && j="$3"
out="${ALLSEEDS_OUT:-/tmp/allseeds.$$}"; mkdir -p "$out"
one() {
  d="$1"; n=$(basename "$d"); p=$(python3 -c "import json,sys;print(json.load(open('$d/meta.json'))['property'])")
  ./seedrun.sh "$d" $p > "$out/$n.log" 2>&1
  v=$(grep -o '^VIOLATION property=[A-Z0-9]*' "$out/$n.log" | sed 's/VIOLATION //' | sort -u | tr '\n' ' ')
  u=$(grep -o '^UNDECIDED property=[A-Z0-9]*' "$out/$n.log" | sed 's/UNDECIDED //' | sort -u | tr '\n' ' ')
  f=$(grep '^failed obligation:' "$out/$n.log" | sed 's/failed obligation: //' | sort -u | tr '\n' ';')
  echo "$n VIOL=[$v] UNDEC=[$u] :: $f"
}
for d in seeded/$pat/; do
  [ -f "$d/meta.json" ] || continue
  one "${d%/}" &
  while [ "$(jobs -r | wc -l)" -ge "$j" ]; do sleep 2; done
done
wait
