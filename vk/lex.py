"""Minimal Rust lexer: tokens + leading trivia (whitespace and comments).

Used to compare the executable text of an annotated contract template with the
text cut from /repo *token by token* (comments and layout are trivia), and to
merge a changed /repo text into the template.
"""
import re

_ID = re.compile(r"[A-Za-z_][A-Za-z0-9_]*")
_NUM = re.compile(r"[0-9][0-9A-Za-z_]*")
_WS = re.compile(r"\s+")
_RAW = re.compile(r'b?r(#*)"')
_LIFETIME = re.compile(r"'[A-Za-z_][A-Za-z0-9_]*(?!')")


class Tok:
    __slots__ = ("text", "pre", "line", "ghost", "tags", "src", "pos")

    def __init__(self, text, pre, line):
        self.text = text
        self.pre = pre      # trivia before the token
        self.line = line    # 1-based line of the token in its source text
        self.ghost = False
        self.tags = None
        self.src = None     # 'T' template / 'R' repo
        self.pos = 0        # offset of the token in its source text

    def __repr__(self):
        return "Tok(%r@%d)" % (self.text, self.line)


def lex(s, line0=1):
    """Return (tokens, trailing_trivia)."""
    toks = []
    i = 0
    n = len(s)
    line = line0
    pre_start = 0
    while i < n:
        c = s[i]
        if c.isspace():
            m = _WS.match(s, i)
            line += s.count("\n", i, m.end())
            i = m.end()
            continue
        if s.startswith("//", i):
            j = s.find("\n", i)
            if j < 0:
                j = n
            i = j
            continue
        if s.startswith("/*", i):
            depth = 1
            j = i + 2
            while j < n and depth:
                if s.startswith("/*", j):
                    depth += 1
                    j += 2
                elif s.startswith("*/", j):
                    depth -= 1
                    j += 2
                else:
                    j += 1
            line += s.count("\n", i, j)
            i = j
            continue
        # token
        start = i
        tline = line
        m = _RAW.match(s, i)
        if m:
            closing = '"' + m.group(1)
            j = s.find(closing, m.end())
            j = n if j < 0 else j + len(closing)
        elif c == '"' or (c == "b" and s.startswith('b"', i)):
            j = i + (2 if c == "b" else 1)
            while j < n and s[j] != '"':
                j += 2 if s[j] == "\\" else 1
            j += 1
        elif c == "'":
            m2 = _LIFETIME.match(s, i)
            if m2:
                j = m2.end()
            else:
                j = i + 1
                while j < n and s[j] != "'":
                    j += 2 if s[j] == "\\" else 1
                j += 1
        else:
            m2 = _ID.match(s, i) or _NUM.match(s, i)
            j = m2.end() if m2 else i + 1
        text = s[start:j]
        line += text.count("\n")
        toks.append(Tok(text, s[pre_start:start], tline))
        toks[-1].pos = start
        i = j
        pre_start = j
    return toks, s[pre_start:]


def untok(toks, tail=""):
    return "".join(t.pre + t.text for t in toks) + tail


def texts(toks):
    return [t.text for t in toks]


def match_brace(s, open_idx):
    """Index of the brace matching s[open_idx] ('{', '(' or '['), skipping
    strings and comments. Works on raw text."""
    toks, _ = lex(s[open_idx:])
    pairs = {"{": "}", "(": ")", "[": "]"}
    o = s[open_idx]
    cl = pairs[o]
    depth = 0
    pos = open_idx
    for t in toks:
        pos += len(t.pre)
        if t.text == o:
            depth += 1
        elif t.text == cl:
            depth -= 1
            if depth == 0:
                return pos
        pos += len(t.text)
    raise ValueError("unbalanced %s at %d" % (o, open_idx))
