"""Bounded check of lock-protected shared state under THREAD INTERLEAVINGS with loom (the crate's own dev-dependency
under --cfg nexosim_loom): a harness file is appended to the real source file in a scratch copy of the workspace and run
with `cargo test --offline`. Same result shape as vk.xsim.run. Labelled bounded (loom's preemption bound, a fixed number
of threads and operations); never counted as proved."""
import fcntl
import os
import re
import shutil
import subprocess
import tempfile
import time

from . import unit as U

ROOT = os.path.dirname(os.path.dirname(os.path.abspath(__file__)))
CACHE = os.path.join(ROOT, ".cache", "loom-target")
GROUPS = {
    "lqueue": {"file": "nexosim/src/channel/queue.rs", "harness": "loom/queue.rs", "filter": "verif_loom", "props": "C12",
               "tests": ["verif_loom_queue_capacity_2", "verif_loom_queue_capacity_3"], "bounds": (2, 3),
               "bound": "loom model checking of the real mailbox Queue: two producer threads pushing two messages each and the consumer popping concurrently, capacities 2 and 3, preemption bound %s; every interleaving within the bound"},
    "lcrw": {"file": "nexosim/src/util/cached_rw_lock.rs", "harness": "loom/cached_rw_lock.rs", "filter": "verif_loom", "props": "C14",
             "tests": ["verif_loom_clones_see_completed_writes", "verif_loom_scratchpad_sees_completed_writes"]},
}


def run(tier, build_dir, name):
    g = GROUPS[name]
    out = {"ok": False, "scenarios": 0, "bound": "", "failures": [], "samples": [], "undecided": None, "wall_s": 0.0, "cmd": "", "items": {}}
    t0 = time.time()
    os.makedirs(CACHE, exist_ok=True)
    d = tempfile.mkdtemp(prefix="vk-loom-")
    try:
        ws = os.path.join(d, "ws")
        shutil.copytree(U.REPO, ws, ignore=shutil.ignore_patterns("target", ".git"))
        path = os.path.join(ws, g["file"])
        src = open(path).read()
        open(path, "w").write(src + open(os.path.join(ROOT, g["harness"])).read())
        out["items"] = {"file:" + g["file"]: {"src": g["file"], "repo_lines": [1, src.count("\n") + 1]}}
        bound = str(g.get("bounds", (3, 4))[1 if tier == "thorough" else 0])
        env = dict(os.environ, CARGO_NET_OFFLINE="true", CARGO_TARGET_DIR=CACHE, RUSTFLAGS="--cfg nexosim_loom",
                   VERIF_LOOM_PREEMPTION_BOUND=bound, LOOM_MAX_PREEMPTIONS=bound)
        cmd = ["cargo", "test", "--offline", "-p", "nexosim", "--lib", "--release", g["filter"], "--", "--test-threads=1"]
        out["cmd"] = "RUSTFLAGS='--cfg nexosim_loom' " + " ".join(cmd) + "  (harness %s appended to the real %s in a scratch copy)" % (g["harness"], g["file"])
        with open(os.path.join(CACHE, ".vk-lock"), "w") as lk:
            fcntl.flock(lk, fcntl.LOCK_EX)
            try:
                p = subprocess.run(cmd, cwd=ws, env=env, capture_output=True, text=True, timeout=3000)
            except subprocess.TimeoutExpired:
                out["undecided"] = name + ": loom run timed out"
                return out
        text = p.stdout + "\n" + p.stderr
        results = dict(re.findall(r"^test \S*::(verif_loom_\w+) \.\.\. (ok|FAILED)", text, flags=re.M))
        if not results or any(t not in results for t in g["tests"]):
            errs = [ln for ln in text.split("\n") if ln.startswith("error")]
            out["undecided"] = name + ": the loom harness did not build or run: " + "; ".join(errs[:3])[:400]
            return out
        out["ok"] = True
        out["scenarios"] = len(results)
        out["bound"] = g.get("bound", "loom model checking of the real CachedRwLock: three threads (a writer, a refreshing clone, the main thread writing through a third clone), one or two operations each, preemption bound %s; every interleaving within the bound") % bound
        out["samples"] = sorted(results)
        for t, r in sorted(results.items()):
            if r == "FAILED":
                m = re.search(r"%s' \(\d+\) panicked at [^\n]*\n([^\n]*)" % re.escape(t), text)
                out["failures"].append({"check": t, "props": g["props"], "count": 1, "scenario": "an interleaving found by loom (preemption bound %s)" % bound,
                                        "detail": (m.group(1) if m else "assertion failed under some interleaving")[:300]})
    finally:
        shutil.rmtree(d, ignore_errors=True)
        out["wall_s"] = time.time() - t0
    return out


if __name__ == "__main__":
    import json
    import sys
    for gname in (sys.argv[2:] or list(GROUPS)):
        print(json.dumps(run(sys.argv[1] if len(sys.argv) > 1 else "quick", "/tmp", gname), indent=1)[:3000])
