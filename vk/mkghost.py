"""Authoring helper (not used by the checks): mark the ghost lines of a prototype item.
mark(proto_item_text, real_text_after_rules) -> annotated text, list of mixed lines."""
import difflib
from .lex import lex


def _norm_lines(text):
    toks, _ = lex(text)
    per = {}
    for t in toks:
        per.setdefault(t.line, []).append(t.text)
    n = text.count("\n") + 1
    return [" ".join(per.get(i, [])) for i in range(1, n + 1)]


def mark(proto, real):
    pl = _norm_lines(proto)
    rl_all = _norm_lines(real)
    pidx = [i for i, x in enumerate(pl) if x]
    ridx = [i for i, x in enumerate(rl_all) if x]
    sm = difflib.SequenceMatcher(None, [pl[i] for i in pidx], [rl_all[i] for i in ridx], autojunk=False)
    kind = {}
    blocks = sm.get_matching_blocks()
    pa = ra = 0
    for a, b, n in blocks:
        # gap: proto pidx[pa:a], real ridx[ra:b] -> token-level
        gp = [pidx[k] for k in range(pa, a)]
        gr = [ridx[k] for k in range(ra, b)]
        if gp:
            ptoks = [(i, t) for i in gp for t in pl[i].split(" ")]
            rtoks = [t for i in gr for t in rl_all[i].split(" ")]
            sm2 = difflib.SequenceMatcher(None, [t for _, t in ptoks], rtoks, autojunk=False)
            m = set()
            for a2, b2, n2 in sm2.get_matching_blocks():
                for k in range(a2, a2 + n2):
                    m.add(k)
            per = {}
            for k, (i, t) in enumerate(ptoks):
                per.setdefault(i, []).append(k in m)
            for i, fl in per.items():
                kind[i] = "exec" if all(fl) else ("ghost" if not any(fl) else "mixed")
        for k in range(a, a + n):
            kind[pidx[k]] = "exec"
        pa, ra = a + n, b + n
    lines = proto.split("\n")
    kinds = [kind.get(i, "blank") if pl[i] else "blank" for i in range(len(lines))]
    for i in range(len(kinds)):
        if kinds[i] == "mixed":
            prev = [k for k in kinds[:i] if k != "blank"]
            nxt = [k for k in kinds[i + 1:] if k != "blank"]
            if prev and nxt and prev[-1] == "ghost" and nxt[0] in ("ghost", "mixed"):
                kinds[i] = "ghost"
    out = []
    mixed = []
    i = 0
    while i < len(lines):
        if kinds[i] == "ghost":
            j = i
            while j + 1 < len(lines) and kinds[j + 1] in ("ghost", "blank"):
                j += 1
            while kinds[j] == "blank":
                j -= 1
            if j == i:
                out.append(lines[i] + "   //@")
            else:
                ind = lines[i][:len(lines[i]) - len(lines[i].lstrip())]
                out.append(ind + "//@[")
                out += lines[i:j + 1]
                out.append(ind + "//@]")
            i = j + 1
            continue
        if kinds[i] == "mixed":
            mixed.append((i + 1, lines[i]))
        out.append(lines[i])
        i += 1
    return "\n".join(out), mixed
