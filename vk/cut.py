"""Cut items (fn / struct / enum / impl block) out of a Rust source file,
byte for byte, by name + brace matching."""
import re
from .lex import lex


class CutError(Exception):
    pass


def _tok_index_at(toks, off):
    for k, t in enumerate(toks):
        if t.pos >= off:
            return k
    return len(toks)


def _block_end(toks, k):
    """k: index of a '{' token; return index of the matching '}'."""
    depth = 0
    for j in range(k, len(toks)):
        if toks[j].text == "{":
            depth += 1
        elif toks[j].text == "}":
            depth -= 1
            if depth == 0:
                return j
    raise CutError("unbalanced braces")


def cut(src, kind, name, within=None, nth=0):
    """Return (text, first_line, last_line) of the item.

    kind: fn | struct | enum | impl | const | type | trait
    within: optional regex; the search starts at its first match and, if the
            match is followed by a `{` block, is limited to that block.
    For kind == 'impl', name is a regex matched against the header text
    between `impl` and `{`.
    """
    if kind == "filehead":
        # the whole file up to its test module (`#[cfg(test)]` / `#[cfg(all(test, ...))]`), or all of it
        m = re.search(r"^#\[cfg\((?:all\()?test\b", src, flags=re.M)
        text = src[:m.start()] if m else src
        return text, 1, text.count("\n") + 1
    toks, _ = lex(src)
    lo, hi = 0, len(toks)
    if within:
        m = re.search(within, src)
        if not m:
            raise CutError("enclosing pattern not found: %s" % within)
        lo = _tok_index_at(toks, m.start())
        # limit to the block opened after the match
        k = _tok_index_at(toks, m.end() - 1)
        while k < len(toks) and toks[k].text not in "{;":
            k += 1
        if k < len(toks) and toks[k].text == "{":
            hi = _block_end(toks, k) + 1
            lo = k
    found = []
    k = lo
    while k < hi - 1:
        t = toks[k]
        if kind == "impl":
            if t.text == "impl" and (k == 0 or toks[k - 1].text not in ("->", ":", "&", "<", ",", "(")) \
                    and not (k > 0 and toks[k - 1].text == ">" and k > 1 and toks[k - 2].text == "-"):
                j = k
                while toks[j].text != "{":
                    j += 1
                header = src[t.pos:toks[j].pos]
                if re.search(name, header) and "(" not in header.split("for")[0][:0]:
                    found.append(k)
        elif t.text == kind and toks[k + 1].text == name:
            found.append(k)
        k += 1
    if len(found) <= nth:
        raise CutError("%s %s not found (within=%s, nth=%d)" % (kind, name, within, nth))
    k = found[nth]
    # start: first token on the same line (qualifiers such as pub(crate), const, async)
    s = k
    while s > 0 and toks[s - 1].line == toks[k].line and toks[s - 1].text not in ("{", "}", ";"):
        s -= 1
    # end: `;` or matching brace of the first `{` at paren depth 0
    depth = 0
    j = k
    while True:
        x = toks[j].text
        if x in "([":
            depth += 1
        elif x in ")]":
            depth -= 1
        elif x == ";" and depth == 0:
            e = j
            break
        elif x == "{" and depth == 0:
            e = _block_end(toks, j)
            break
        j += 1
    start = toks[s].pos
    # keep indentation of the first line
    ls = src.rfind("\n", 0, start) + 1
    if src[ls:start].strip() == "":
        start = ls
    end = toks[e].pos + 1
    return src[start:end], toks[s].line, toks[e].line
