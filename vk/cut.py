"""Cut items (fn / struct / enum / impl block) out of a Rust source file,
byte for byte, by name + brace matching."""
import re
from .lex import lex


class CutError(Exception):
    pass


def _tok_index_at(toks, off):
    for k, t in enumerate(toks):
        if t.pos >= off:
            return k
    return len(toks)


def _block_end(toks, k):
    """k: index of a '{' token; return index of the matching '}'."""
    depth = 0
    for j in range(k, len(toks)):
        if toks[j].text == "{":
            depth += 1
        elif toks[j].text == "}":
            depth -= 1
            if depth == 0:
                return j
    raise CutError("unbalanced braces")


def cut(src, kind, name, within=None, nth=0):
    """Return (text, first_line, last_line) of the item.

    kind: fn | struct | enum | impl | const | type | trait
    within: optional regex; the search starts at its first match and, if the
            match is followed by a `{` block, is limited to that block.
    For kind == 'impl', name is a regex matched against the header text
    between `impl` and `{`.
    """
    if kind == "filehead":
        # the whole file up to its test module (`#[cfg(test)]` / `#[cfg(all(test, ...))]`), or all of it
        m = re.search(r"^#\[cfg\((?:all\()?test\b[^\n]*\n(?:\s*#\[[^\n]*\n)*\s*(?:pub(?:\([a-z]+\))?\s+)?mod\s+tests?\b", src, flags=re.M)
        text = src[:m.start()] if m else src
        return text, 1, text.count("\n") + 1
    toks, _ = lex(src)
    lo, hi = 0, len(toks)
    if within:
        m = re.search(within, src)
        if not m:
            raise CutError("enclosing pattern not found: %s" % within)
        lo = _tok_index_at(toks, m.start())
        # limit to the block opened after the match
        k = _tok_index_at(toks, m.end() - 1)
        while k < len(toks) and toks[k].text not in "{;":
            k += 1
        if k < len(toks) and toks[k].text == "{":
            hi = _block_end(toks, k) + 1
            lo = k
    found = []
    k = lo
    while k < hi - 1:
        t = toks[k]
        if kind == "impl":
            if t.text == "impl" and (k == 0 or toks[k - 1].text not in ("->", ":", "&", "<", ",", "(")) \
                    and not (k > 0 and toks[k - 1].text == ">" and k > 1 and toks[k - 2].text == "-"):
                j = k
                while toks[j].text != "{":
                    j += 1
                header = src[t.pos:toks[j].pos]
                if re.search(name, header) and "(" not in header.split("for")[0][:0]:
                    found.append(k)
        elif t.text == kind and toks[k + 1].text == name:
            found.append(k)
        k += 1
    if len(found) <= nth:
        raise CutError("%s %s not found (within=%s, nth=%d)" % (kind, name, within, nth))
    k = found[nth]
    # start: first token on the same line (qualifiers such as pub(crate), const, async)
    s = k
    while s > 0 and toks[s - 1].line == toks[k].line and toks[s - 1].text not in ("{", "}", ";"):
        s -= 1
    # end: `;` or matching brace of the first `{` at paren depth 0
    depth = 0
    j = k
    while True:
        x = toks[j].text
        if x in "([":
            depth += 1
        elif x in ")]":
            depth -= 1
        elif x == ";" and depth == 0:
            e = j
            break
        elif x == "{" and depth == 0:
            e = _block_end(toks, j)
            break
        j += 1
    start = toks[s].pos
    # keep indentation of the first line
    ls = src.rfind("\n", 0, start) + 1
    if src[ls:start].strip() == "":
        start = ls
    end = toks[e].pos + 1
    return src[start:end], toks[s].line, toks[e].line


def find_fn_with_context(src, name):
    """All definitions `fn name` in src, each as (text, enclosing_impl_header or None).
    The header is the text from `impl` up to (not including) the `{` of the block that directly encloses the fn."""
    toks, _ = lex(src)
    out = []
    stack = []   # indices of the '{' tokens currently open
    for k, t in enumerate(toks):
        if t.text == "{":
            stack.append(k)
        elif t.text == "}":
            if stack:
                stack.pop()
        elif t.text == "fn" and k + 1 < len(toks) and toks[k + 1].text == name:
            header = None
            if stack:
                ob = stack[-1]
                # walk back from the '{' to the start of its header
                j = ob - 1
                while j >= 0 and toks[j].text not in ("}", ";", "{"):
                    j -= 1
                hdr_toks = toks[j + 1:ob]
                # skip attributes / doc attributes in front
                while hdr_toks and hdr_toks[0].text == "#":
                    depth = 0
                    m = 1
                    while m < len(hdr_toks):
                        if hdr_toks[m].text == "[":
                            depth += 1
                        elif hdr_toks[m].text == "]":
                            depth -= 1
                            if depth == 0:
                                break
                        m += 1
                    hdr_toks = hdr_toks[m + 1:]
                if hdr_toks and hdr_toks[0].text in ("impl", "unsafe"):
                    header = src[hdr_toks[0].pos:toks[ob].pos].strip()
                elif hdr_toks and hdr_toks[0].text == "fn" or any(x.text == "fn" for x in hdr_toks):
                    continue   # a nested fn: it comes along with its parent
                else:
                    continue
            # start: first token on the same line
            sidx = k
            while sidx > 0 and toks[sidx - 1].line == toks[k].line and toks[sidx - 1].text not in ("{", "}", ";"):
                sidx -= 1
            depth = 0
            j = k
            e = None
            while j < len(toks):
                x = toks[j].text
                if x in "([":
                    depth += 1
                elif x in ")]":
                    depth -= 1
                elif x == ";" and depth == 0:
                    e = j
                    break
                elif x == "{" and depth == 0:
                    e = _block_end(toks, j)
                    break
                j += 1
            if e is None:
                continue
            out.append((src[toks[sidx].pos:toks[e].pos + 1], header))
    return out
