"""Developer helper: python3 -m vk.tool <unit> [verus args…]
assembles the unit from /repo (VK_REPO) and runs Verus with human-readable output."""
import os
import subprocess
import sys
from . import unit as U
from .check import CONTRACTS, BUILD, add_canaries


def main():
    name = sys.argv[1]
    t = U.Template(os.path.join(CONTRACTS, name + ".rs"))
    a = U.assemble(t)
    if "--canary" in sys.argv:
        add_canaries(t, a)
        sys.argv.remove("--canary")
    os.makedirs(BUILD, exist_ok=True)
    p = os.path.join(BUILD, name + "_dev.rs")
    open(p, "w").write(a.text)
    for k, v in a.items.items():
        if v["drift"]:
            print("DRIFT", k, v["drift"])
    if "--no-verify" in sys.argv:
        print(p)
        return
    cmd = ["verus", p] + t.verus_args + sys.argv[2:]
    print(" ".join(cmd))
    sys.exit(subprocess.call(cmd))


main()
