"""Mutation smoke test: python3 -m vk.smoke smoke/<file>.json [-j N] [--only name]
Each entry applies one edit to a scratch copy of /repo's sources and runs the checks of the
listed properties against it (VK_REPO). Expected verdicts are compared with the observed ones."""
import json
import os
import re
import shutil
import subprocess
import sys
import tempfile
from concurrent.futures import ThreadPoolExecutor

ROOT = os.path.dirname(os.path.dirname(os.path.abspath(__file__)))
REPO = os.environ.get("VK_REPO", "/repo")


def run_one(m, props_default):
    d = tempfile.mkdtemp(prefix="vk-smoke-")
    try:
        shutil.rmtree(d)
        shutil.copytree(REPO, d, ignore=shutil.ignore_patterns("target", ".git"))
        for ed in m.get("edits", [m]):
            p = os.path.join(d, ed["file"])
            s = open(p).read()
            if ed["find"] not in s:
                return m["name"], None, "find string not present"
            s = s.replace(ed["find"], ed["replace"], 1)
            open(p, "w").write(s)
        props = m.get("props") or props_default
        env = dict(os.environ, VK_REPO=d, VK_BUILD=os.path.join(d, "build"), VK_EVIDENCE=os.path.join(d, "ev"),
                   VK_REPLAYS=os.path.join(d, "replays"))
        pr = subprocess.run([sys.executable, "-m", "vk.check"] + props, cwd=ROOT, env=env, capture_output=True, text=True)
        verdict = {}
        detail = {}
        for ln in pr.stdout.split("\n"):
            mm = re.match(r"(OK|VIOLATION|UNDECIDED) property=(\w+)", ln)
            if mm:
                v = mm.group(1)
                cur = verdict.get(mm.group(2))
                if cur != "VIOLATION":
                    verdict[mm.group(2)] = v if not (cur == "UNDECIDED" and v == "OK") else cur
            mm = re.match(r"failed obligation: (\S+)", ln)
            if mm:
                detail.setdefault("failed", []).append(mm.group(1))
            if ln.startswith("UNDECIDED"):
                detail.setdefault("undecided", []).append(ln[:200])
        return m["name"], verdict, detail
    finally:
        shutil.rmtree(d, ignore_errors=True)


def main():
    path = sys.argv[1]
    j = 6
    only = None
    if "-j" in sys.argv:
        j = int(sys.argv[sys.argv.index("-j") + 1])
    if "--only" in sys.argv:
        only = sys.argv[sys.argv.index("--only") + 1]
    spec = json.load(open(path))
    props_default = spec["props"]
    muts = [m for m in spec["mutations"] if not only or m["name"] == only]
    bad = 0
    with ThreadPoolExecutor(max_workers=j) as ex:
        for name, verdict, detail in ex.map(lambda m: run_one(m, props_default), muts):
            m = [x for x in muts if x["name"] == name][0]
            if verdict is None:
                print("%-40s SKIP (%s)" % (name, detail))
                bad += 1
                continue
            exp_v = set(m.get("violates", []))
            exp_ok = set(m.get("ok", []))
            got_v = {p for p, v in verdict.items() if v == "VIOLATION"}
            got_u = {p for p, v in verdict.items() if v == "UNDECIDED"}
            missed = exp_v - got_v
            false_alarm = exp_ok & got_v
            extra = got_v - exp_v - exp_ok
            status = "PASS" if not missed and not false_alarm else "FAIL"
            if status == "FAIL":
                bad += 1
            print("%-40s %s  flagged=%s undecided=%s%s%s%s" % (
                name, status, ",".join(sorted(got_v)) or "-", ",".join(sorted(got_u)) or "-",
                "  MISSED=" + ",".join(sorted(missed)) if missed else "",
                "  FALSE-ALARM=" + ",".join(sorted(false_alarm)) if false_alarm else "",
                "  also=" + ",".join(sorted(extra)) if extra else ""))
            if "-v" in sys.argv or status == "FAIL":
                for f in detail.get("failed", [])[:12]:
                    print("      failed:", f)
                for u in detail.get("undecided", [])[:4]:
                    print("      ", u)
    print("smoke: %d mutation(s), %d not as expected" % (len(muts), bad))
    return 1 if bad else 0


if __name__ == "__main__":
    sys.exit(main())
