"""Compile nexosim once under Kani into the cached target dir (no harness is verified)."""
import os, shutil, subprocess, sys
from . import kani as K
d = K.make_scratch({})
try:
    os.makedirs(K.CACHE, exist_ok=True)
    cmd = ["cargo", "kani", "-p", "nexosim", "-Z", "unstable-options", "--target-dir", K.CACHE, "--only-codegen"]
    p = subprocess.run(cmd, cwd=os.path.join(d, "ws"), env=dict(os.environ, CARGO_NET_OFFLINE="true"),
                       capture_output=True, text=True, timeout=1800)
    print("kani warm-up exit", p.returncode)
finally:
    shutil.rmtree(d, ignore_errors=True)
