"""Bounded executable stand-in (contracts/xsim.rs): the real text of the scheduler kernel, cut from /repo with
no rewrite rule, compiled by rustc against executable stubs and run on every scenario up to a stated bound."""
import json
import os
import re
import subprocess
import time

from . import unit as U
from . import cut as C

ROOT = os.path.dirname(os.path.dirname(os.path.abspath(__file__)))


def run(tier, build_dir, name="xsim"):
    out = {"ok": False, "scenarios": 0, "bound": "", "failures": [], "samples": [], "undecided": None, "wall_s": 0.0, "cmd": "",
           "items": {}}
    t0 = time.time()
    try:
        tmpl = U.Template(os.path.join(ROOT, "contracts", name + ".rs"))
        asm = U.assemble(tmpl)
    except U.UnitError as e:
        out["undecided"] = name + ": " + str(e)
        return out
    os.makedirs(build_dir, exist_ok=True)
    # `//@stubcrate name=N file=REL`: an executable stub of an external crate, compiled to an rlib and passed with --extern
    # `//@aux dst=REL src=REPO_REL`: a real source file of /repo copied verbatim next to the unit (for `mod x;` declarations)
    tmpl_text = open(os.path.join(ROOT, "contracts", name + ".rs")).read()
    externs = []
    for m in re.finditer(r"^//@stubcrate name=(\w+) file=(\S+)\s*$", tmpl_text, flags=re.M):
        cname, rel = m.group(1), m.group(2)
        lib = os.path.join(build_dir, "lib%s_%s.rlib" % (cname, name))
        pc = subprocess.run(["rustc", "--edition", "2021", "-O", "-A", "warnings", "--crate-type", "rlib", "--crate-name", cname,
                             os.path.join(ROOT, "contracts", rel), "-o", lib], capture_output=True, text=True, timeout=600)
        if pc.returncode != 0:
            out["undecided"] = name + ": stub crate %s does not compile: %s" % (cname, pc.stderr[-400:])
            return out
        externs += ["--extern", "%s=%s" % (cname, lib)]
    aux_info = {}
    for m in re.finditer(r"^//@aux dst=(\S+) src=(\S+)\s*$", tmpl_text, flags=re.M):
        dst, rel = m.group(1), m.group(2)
        try:
            data = open(os.path.join(U.REPO, rel)).read()
        except OSError as e:
            out["undecided"] = name + ": cannot read %s: %s" % (rel, e)
            return out
        dpath = os.path.join(build_dir, dst)
        os.makedirs(os.path.dirname(dpath), exist_ok=True)
        open(dpath, "w").write(data)
        aux_info["aux:" + dst] = {"src": rel, "repo_lines": [1, data.count("\n") + 1]}
    src = os.path.join(build_dir, name + "_unit.rs")
    binp = os.path.join(build_dir, name + "_bin")
    open(src, "w").write(asm.text)
    out["items"] = {k: {"src": v["src"], "repo_lines": v["repo_lines"]} for k, v in asm.items.items()}
    out["items"].update(aux_info)
    p = subprocess.run(["rustc", "--edition", "2021", "-O", "-A", "warnings"] + externs + [src, "-o", binp], capture_output=True, text=True, timeout=600)
    # helper functions that /repo introduced (a refactoring that extracts a method): the functions the compiler misses are
    # cut from the same source files, with their enclosing impl header, and appended - still the real text, still no rule
    added = []
    rounds = 0
    while p.returncode != 0 and rounds < 4:
        rounds += 1
        missing = set(re.findall(r"no (?:method|function or associated item) named `(\w+)` found", p.stderr))
        missing |= set(re.findall(r"cannot find function `(\w+)` in", p.stderr))
        missing -= set(added)
        if not missing:
            break
        extra = []
        srcs = sorted({v["src"] for v in asm.items.values()})
        for fname in sorted(missing):
            for rel in srcs:
                try:
                    text_src = open(os.path.join(U.REPO, rel)).read()
                except OSError:
                    continue
                found = C.find_fn_with_context(text_src, fname)
                if len(found) == 1:
                    ftext, header = found[0]
                    extra.append((rel, "// helper `%s` cut from %s (introduced in /repo after the stand-in was written)\n%s" % (
                        fname, rel, ("%s {\n%s\n}" % (header, ftext)) if header else ftext)))
                    added.append(fname)
                    break
        if not extra:
            break
        text = open(src).read()
        # a helper goes where the template says helpers of its source file belong (`//@helpers src=<file>`, inside the right
        # module), otherwise at the end of the unit
        rest = []
        for rel, htext in extra:
            mk = "//@helpers src=%s" % rel
            if mk in text:
                text = text.replace(mk, htext + "\n" + mk, 1)
            else:
                rest.append(htext)
        text += "\n" + "\n".join(rest) + "\n"
        open(src, "w").write(text)
        p = subprocess.run(["rustc", "--edition", "2021", "-O", "-A", "warnings"] + externs + [src, "-o", binp], capture_output=True, text=True, timeout=600)
    out["helpers_added"] = added
    if p.returncode != 0:
        errs = [ln for ln in p.stderr.split("\n") if ln.startswith("error")]
        out["undecided"] = name + " does not compile against the executable stubs: " + "; ".join(errs[:3])
        out["wall_s"] = time.time() - t0
        return out
    args = [binp] + (["--thorough"] if tier == "thorough" else [])
    out["cmd"] = "rustc --edition 2021 -O <real text cut from /repo + executable stubs> && ./" + name + "_bin" + (" --thorough" if tier == "thorough" else "")
    try:
        r = subprocess.run(args, capture_output=True, text=True, timeout=3000)
        d = json.loads(r.stdout.strip().split("\n")[-1])
        out.update(ok=True, scenarios=d["scenarios"], bound=d["bound"], failures=d["failures"], samples=d.get("samples", []))
    except (subprocess.TimeoutExpired, ValueError, IndexError) as e:
        out["undecided"] = name + " run failed: %r" % (e,)
    out["wall_s"] = time.time() - t0
    return out


if __name__ == "__main__":
    import sys
    r = run(sys.argv[1] if len(sys.argv) > 1 else "quick", os.environ.get("VK_BUILD", os.path.join(ROOT, ".build")))
    print(json.dumps({k: v for k, v in r.items() if k != "items"}, indent=1)[:6000])
