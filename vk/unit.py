"""Contract units: annotated templates + mechanical extraction from /repo.

A unit template (/verif/contracts/<unit>.rs) is a Verus file in which

  * text outside `//@item … //@end` is the *prelude*: stubs (assumptions),
    spec functions and lemmas. It never contains text of /repo.
  * text inside an item is the text of one item of /repo (after the declared
    rewrite rules) interleaved with *ghost* lines. A ghost line is a line
    ending in `//@` (optionally followed by tags) or a line between `//@[`
    and `//@]`. Everything else in an item is *exec* text.

On every run, for each item, the item is cut again from /repo's working tree,
the rewrite rules are applied, and the result is compared token by token with
the template's exec text. If equal, the template item is used verbatim (so the
verified text is the real text + ghost lines). If not, the difference is merged
token-wise into the template (exec tokens come from /repo, ghost tokens from
the template) and the merged text is verified; the drift is reported.
"""
import difflib
import hashlib
import os
import re

from .lex import lex, untok, texts
from .cut import cut, CutError
from . import rules as pyrules

REPO = os.environ.get("VK_REPO", "/repo")
TAG_RE = re.compile(r"//@(\[|\])?\s*(.*)$")


class UnitError(Exception):
    """The unit could not be assembled (lost anchor etc.) -> undecided."""


class Rule:
    def __init__(self, name, pattern, repl, why, kind="re", count=None):
        self.name, self.pattern, self.repl, self.why, self.kind, self.count = name, pattern, repl, why, kind, count


def _parse_kv(s):
    """key=value pairs; values may be `backtick quoted`."""
    out = {}
    for m in re.finditer(r"(\w+)=(`[^`]*`|\S+)", s):
        v = m.group(2)
        if v.startswith("`"):
            v = v[1:-1]
        out[m.group(1)] = v
    return out


def parse_tags(s):
    """'C18,C01 #label' -> (set(props) or None, label or None)"""
    props = set(re.findall(r"\bC\d{2,3}\b", s))
    m = re.search(r"#([\w\-\.]+)", s)
    return (props or None), (m.group(1) if m else None)


class Item:
    def __init__(self, hdr, lines, line_no):
        self.kv = _parse_kv(hdr)
        self.lines = lines          # template lines (with markers)
        self.line_no = line_no      # line number of first body line in the template
        self.name = self.kv.get("name")
        self.kind = self.kv.get("kind", "fn")
        self.src = self.kv.get("src")
        self.within = self.kv.get("within")
        self.nth = int(self.kv.get("nth", "0"))
        self.rules = [r for r in self.kv.get("rules", "").split(",") if r]
        p = self.kv.get("props")
        self.props = set(p.split(",")) if p else None
        self.canary = self.kv.get("canary") == "1"
        self.id = self.kv.get("id") or (("gen:" if self.kind == "gen" else "") + (self.name or "?"))


class Template:
    def __init__(self, path):
        self.path = path
        self.unit = os.path.basename(path)[:-3]
        self.props = set()
        self.verus_args = []
        self.exec = False
        self.closed = []   # (src, impl-header regex): every fn of that impl block must be an item of this template
        self.rules = {}
        self.parts = []   # ('prelude', [lines], first_line_no) | ('item', Item)
        self._parse(open(path).read())

    def _parse(self, text):
        base = os.path.dirname(self.path)

        def expand(txt, depth=0):
            out = []
            for ln in txt.split("\n"):
                if ln.strip().startswith("//@include ") and depth < 5:
                    rel = ln.strip().split()[1]
                    out.append("// ---- begin include %s" % rel)
                    out += expand(open(os.path.join(base, rel)).read().rstrip("\n"), depth + 1)
                    out.append("// ---- end include %s" % rel)
                else:
                    out.append(ln)
            return out
        lines = expand(text)
        defines = set(re.findall(r"^//@define (\w+)\s*$", "\n".join(lines), flags=re.M))
        kept = []
        for ln in lines:
            m = re.search(r"\s*//@if (!?)(\w+)\s*$", ln)
            if m:
                want = (m.group(2) in defines) != bool(m.group(1))
                if want:
                    kept.append(ln[:m.start()])
                continue
            kept.append(ln)
        lines = kept
        cur = []
        cur_start = 1
        i = 0
        while i < len(lines):
            ln = lines[i]
            s = ln.strip()
            if s == "//@exec":
                self.exec = True
                cur.append(ln)
            elif s.startswith("//@closed "):
                m2 = re.match(r"//@closed src=(\S+) impl=`([^`]*)`", s)
                if m2:
                    self.closed.append((m2.group(1), m2.group(2)))
                cur.append(ln)
            elif s.startswith("//@props "):
                self.props |= set(s.split()[1].split(","))
                cur.append(ln)
            elif s.startswith("//@verus "):
                self.verus_args += s.split()[1:]
                cur.append(ln)
            elif s.startswith("//@rule ") or s.startswith("//@pyrule "):
                kind = "re" if s.startswith("//@rule ") else "py"
                body = s.split(" ", 1)[1]
                f = [x.strip() for x in body.split(" :: ")]
                if kind == "re":
                    name, pat, repl, why = f[0], f[1], f[2], (f[3] if len(f) > 3 else "")
                    self.rules[name] = Rule(name, pat, repl, why, "re")
                else:
                    name, call, why = f[0], f[1], (f[2] if len(f) > 2 else "")
                    self.rules[name] = Rule(name, call, None, why, "py")
                cur.append(ln)
            elif s.startswith("//@item "):
                if cur:
                    self.parts.append(("prelude", cur, cur_start))
                body = []
                j = i + 1
                while lines[j].strip() != "//@end":
                    body.append(lines[j])
                    j += 1
                self.parts.append(("hdr", [ln], i + 1))
                self.parts.append(("item", Item(s[len("//@item "):], body, i + 2)))
                self.parts.append(("hdr", [lines[j]], j + 1))
                i = j
                cur = []
                cur_start = j + 2
            else:
                cur.append(ln)
            i += 1
        if cur:
            self.parts.append(("prelude", cur, cur_start))

    def items(self):
        return [p[1] for p in self.parts if p[0] == "item"]


def ghost_flags(lines):
    """Per line: (is_ghost, props, label)."""
    out = []
    region = None
    for ln in lines:
        s = ln.rstrip()
        m = TAG_RE.search(s)
        st = s.strip()
        if st.startswith("//@["):
            region = parse_tags(st[4:])
            out.append((True, region[0], region[1]))
        elif st.startswith("//@]"):
            out.append((True, region[0] if region else None, None))
            region = None
        elif region is not None:
            props, label = region
            if m and not m.group(1):
                p2, l2 = parse_tags(m.group(2))
                props, label = (p2 or props), (l2 or label)
            out.append((True, props, label))
        elif m and not m.group(1) and not st.startswith("//@item") and not st.startswith("//@end"):
            p, l = parse_tags(m.group(2))
            out.append((True, p, l))
        else:
            out.append((False, None, None))
    return out


def apply_rules(text, item, tmpl, fired):
    for rn in item.rules:
        r = tmpl.rules.get(rn)
        if r is None:
            raise UnitError("item %s: unknown rule %s" % (item.id, rn))
        if r.kind == "re":
            new, n = re.subn(r.pattern, r.repl, text, flags=re.S)
        else:
            m = re.match(r"(\w+)\((.*)\)$", r.pattern)
            fn = getattr(pyrules, m.group(1))
            args = [a.strip() for a in m.group(2).split(";;")] if m.group(2).strip() else []
            new, n = fn(text, *args)
        fired.append({"rule": rn, "item": item.id, "hits": n, "why": r.why})
        text = new
    return text


RUST_KEYWORDS = {"as", "break", "const", "continue", "crate", "else", "enum", "extern", "false", "fn", "for", "if", "impl", "in",
                 "let", "loop", "match", "mod", "move", "mut", "pub", "ref", "return", "self", "Self", "static", "struct", "super",
                 "trait", "true", "type", "unsafe", "use", "where", "while", "async", "await", "dyn"}
CONTINUES = {"else", ".", "?", ";", ",", ")", "]", "}", "=", "as", "&&", "||", "+", "-", "*", "/", ":", ">", "<"}


def merge(t_toks, r_toks, flip=False):
    """Token merge. t_toks: template tokens (ghost flagged); r_toks: repo tokens.
    Returns (out_tokens, drift) where drift lists the differing exec spans."""
    idx = [k for k, t in enumerate(t_toks) if not t.ghost]
    e0 = [t_toks[k].text for k in idx]
    r = texts(r_toks)
    if e0 == r:
        return t_toks, []
    sm = difflib.SequenceMatcher(None, e0, r, autojunk=False)
    out = []
    drift = []
    emitted = set()

    def ghost_before(i):
        if i in emitted:
            return []
        emitted.add(i)
        start = idx[i - 1] + 1 if i > 0 else 0
        end = idx[i] if i < len(idx) else len(t_toks)
        return t_toks[start:end]

    # Renamed identifiers: an identifier X of the template's executable text that no longer occurs in /repo's text, and an
    # identifier Y of /repo's text that the template does not know, occurring equally often and in the same order of first
    # occurrence, are taken as a renaming X -> Y if applying it makes the two texts strictly more alike. The renaming is
    # applied to the whole template item, proof annotations included.
    ident = re.compile(r"^[A-Za-z_]\w*$")

    def first_occ(seq):
        d, c = {}, {}
        for i, x in enumerate(seq):
            if ident.match(x) and x not in RUST_KEYWORDS:
                d.setdefault(x, i)
                c[x] = c.get(x, 0) + 1
        return d, c
    fo_t, cnt_t = first_occ(e0)
    fo_r, cnt_r = first_occ(r)
    # only identifiers that the template binds locally (let / let mut / parameter / closure parameter) can be renamed
    bound = set()
    for i, x in enumerate(e0):
        if ident.match(x) and x not in RUST_KEYWORDS:
            prev = e0[i - 1] if i > 0 else ""
            nxt = e0[i + 1] if i + 1 < len(e0) else ""
            if prev in ("let", "mut", "|", "ref") or (nxt == ":" and prev in ("(", ",", "|", "mut")) or (prev in ("(", ",") and nxt in (",", ")") and False):
                bound.add(x)
    gone = sorted((x for x in fo_t if x not in fo_r and x in bound), key=lambda x: fo_t[x])
    new_ids = sorted((y for y in fo_r if y not in fo_t), key=lambda y: fo_r[y])
    ghost_ids = {t.text for t in t_toks if t.ghost}
    ren = {}
    if gone and new_ids and len(gone) <= 40:
        def n_diff(a, b):
            m = difflib.SequenceMatcher(None, a, b, autojunk=False)
            return sum(max(i2 - i1, j2 - j1) for tag, i1, i2, j1, j2 in m.get_opcodes() if tag != "equal")
        base = n_diff(e0, r)
        cur = list(e0)
        used = set()
        for x in gone:
            best = None
            for y in new_ids:
                if y in used or cnt_r[y] != cnt_t[x] or y in ghost_ids:
                    continue
                trial = [y if z == x else z for z in cur]
                nd = n_diff(trial, r)
                if nd < base and (best is None or nd < best[0]):
                    best = (nd, y, trial)
            if best is not None:
                base, y, cur = best
                ren[x] = y
                used.add(y)
    if ren:
        for t in t_toks:
            if t.text in ren:
                t.text = ren[t.text]
        e0 = [t_toks[k].text for k in idx]
        sm = difflib.SequenceMatcher(None, e0, r, autojunk=False)
        for a, b in sorted(ren.items()):
            drift.append({"op": "rename", "template": a, "repo": b, "repo_line": 0, "ghost_dropped": ""})
        if e0 == r:
            return t_toks, drift
    ops = sm.get_opcodes()
    # Pre-pass: a proof run sitting strictly inside a deleted / replaced span loses its place. If the statement it
    # precedes was MOVED (the same token sequence re-appears exactly once in inserted text), the run moves with it;
    # otherwise it is dropped and recorded (a failure of that item is then a lost anchor, not a refutation).
    ins_ranges = [(j1, j2) for tag, i1, i2, j1, j2 in ops if tag in ("insert", "replace")]
    reanchor = {}
    moved = set()
    for tag, i1, i2, j1, j2 in ops:
        if tag not in ("delete", "replace"):
            continue
        for i in range(i1 + 1, i2):
            start = idx[i - 1] + 1
            if idx[i] - start <= 0:
                continue
            anchor = []
            for k in range(i, i2):
                anchor.append(e0[k])
                if e0[k] == ";" or len(anchor) >= 16:
                    break
            if len(anchor) < 4 or anchor[0] in ("{", "}", ")", "else") or anchor[-1] != ";":
                continue
            n = len(anchor)
            pos = [j for (a, b) in ins_ranges for j in range(a, b - n + 1) if r[j:j + n] == anchor]
            if len(pos) == 1:
                reanchor.setdefault(pos[0], []).append(t_toks[start:idx[i]])
                moved.add(i)
                emitted.add(i)

    def emit_repo(j1, j2):
        res = []
        for j in range(j1, j2):
            for run in reanchor.get(j, []):
                res += run
            r_toks[j].src = "R"
            res.append(r_toks[j])
        return res

    for tag, i1, i2, j1, j2 in ops:
        if tag == "equal":
            for i in range(i1, i2):
                out += ghost_before(i)
                out.append(t_toks[idx[i]])
        else:
            # Where do inserted tokens go relative to a ghost run sitting at the same place? Ghost sticks to
            # the preceding statement, unless the inserted text continues that statement (`else …`, `.method()`):
            # then the ghost run follows the insertion. `flip` inverts the choice (second attempt of the driver).
            ins_first = tag == "insert" and j1 < len(r_toks) and r_toks[j1].text in CONTINUES
            if flip and tag == "insert":
                ins_first = not ins_first
            if not ins_first:
                out += ghost_before(i1)
            out += emit_repo(j1, j2)
            if ins_first:
                out += ghost_before(i1)
            # ghost runs strictly inside a deleted / replaced span lose their context
            # (closure specs, proof blocks about deleted statements): they are dropped unless re-anchored above
            dropped = []
            n_moved = 0
            for i in range(i1 + 1, i2):
                if i in moved:
                    n_moved += 1
                    continue
                dropped += ghost_before(i)
            drift.append({
                "op": tag,
                "template": " ".join(e0[i1:i2]),
                "repo": " ".join(r[j1:j2]),
                "repo_line": r_toks[j1].line if j1 < len(r_toks) else (r_toks[-1].line if r_toks else 0),
                "ghost_dropped": " ".join(t.text for t in dropped)[:300],
                "ghost_moved_with_its_statement": n_moved,
            })
    out += ghost_before(len(idx))
    # two word-like tokens must not be glued together when a token without leading trivia follows an inserted one
    for k in range(1, len(out)):
        a, b = out[k - 1].text, out[k].text
        if out[k].pre == "" and a and b and (a[-1].isalnum() or a[-1] == "_") and (b[0].isalnum() or b[0] == "_"):
            out[k].pre = " "
    return out, drift


class Assembled:
    def __init__(self):
        self.text = ""
        self.lines = []       # per output line: dict(part, item, ghost, props, label, tline, src)
        self.items = {}       # id -> dict(drift, src, first_line, last_line, repo_lines)
        self.fired = []
        self.assumptions = []
        self.template = None

    def line_info(self, n):
        if 1 <= n <= len(self.lines):
            return self.lines[n - 1]
        return None


def assemble(tmpl, repo=None, flip=False):
    repo = repo or REPO
    asm = Assembled()
    asm.template = tmpl
    chunks = []
    for part in tmpl.parts:
        if part[0] in ("prelude", "hdr"):
            _, lines, first = part
            flags = ghost_flags(lines) if part[0] == "prelude" else [(True, None, None)] * len(lines)
            for k, ln in enumerate(lines):
                asm.lines.append({"part": "prelude", "item": None, "ghost": True, "props": flags[k][1],
                                  "label": flags[k][2], "tline": first + k, "src": "T"})
            chunks.append("\n".join(lines) + "\n")
            continue
        item = part[1]
        if item.kind == "gen":
            # generated spec text (an assumption that follows the source), e.g. the order derived by rustc
            try:
                src = open(os.path.join(repo, item.src)).read()
                stext, l0, l1 = cut(src, "struct", item.name, item.within, item.nth)
                gtext = getattr(pyrules, "gen_" + item.kv["gen"])(stext)
            except (CutError, OSError, ValueError, AttributeError) as e:
                raise UnitError("item %s: cannot generate: %s" % (item.id, e))
            glines = gtext.rstrip("\n").split("\n")
            first = len(asm.lines) + 1
            for k, ln in enumerate(glines):
                asm.lines.append({"part": "prelude", "item": None, "ghost": True, "props": None, "label": None,
                                  "tline": None, "src": "G"})
            chunks.append("\n".join(glines) + "\n")
            asm.fired.append({"rule": "GEN:" + item.kv["gen"], "item": item.id, "hits": 1,
                              "why": "spec generated from the declared fields of the real struct"})
            asm.assumptions.append("%s: generated spec %s for %s (assumes rustc's derive is lexicographic in declared field order)" % (tmpl.unit, item.kv["gen"], item.name))
            continue
        flags = ghost_flags(item.lines)
        ttext = "\n".join(item.lines) + "\n"
        t_toks, t_tail = lex(ttext, 1)
        for t in t_toks:
            g, props, label = flags[t.line - 1]
            t.ghost, t.tags, t.src = g, (props, label), "T"
        srcpath = os.path.join(repo, item.src)
        try:
            src = open(srcpath).read()
            rtext, l0, l1 = cut(src, item.kind, item.name, item.within, item.nth)
        except (CutError, OSError, ValueError) as e:
            raise UnitError("item %s: cannot cut %s %s from %s: %s" % (item.id, item.kind, item.name, item.src, e))
        rtext = apply_rules(rtext, item, tmpl, asm.fired)
        r_toks, _ = lex(rtext, l0)
        out, drift = merge(t_toks, r_toks, flip)
        # rebuild text and the line table
        text = untok(out, t_tail)
        if not text.endswith("\n"):
            text += "\n"
        nlines = text.count("\n")
        infos = [None] * nlines
        ln = 0
        for t in out:
            ln += t.pre.count("\n")
            if ln < nlines and infos[ln] is None:
                if t.src == "T":
                    infos[ln] = {"part": "item", "item": item.id, "ghost": t.ghost, "props": t.tags[0],
                                 "label": t.tags[1], "tline": item.line_no + t.line - 1, "src": "T"}
                else:
                    infos[ln] = {"part": "item", "item": item.id, "ghost": False, "props": None,
                                 "label": None, "tline": None, "src": "R", "rline": t.line}
            ln += t.text.count("\n")
        for k in range(nlines):
            if infos[k] is None:
                infos[k] = {"part": "item", "item": item.id, "ghost": False, "props": None, "label": None,
                            "tline": None, "src": "T"}
        first = len(asm.lines) + 1
        asm.lines += infos
        asm.items[item.id] = {"drift": drift, "src": item.src, "repo_lines": [l0, l1],
                              "first_line": first, "last_line": len(asm.lines),
                              "props": sorted(item.props) if item.props else None,
                              "sha": hashlib.sha256(rtext.encode()).hexdigest()[:12]}
        chunks.append(text)
    # closed impl blocks: a function of a type whose representation invariant the unit relies on must be under contract
    asm.uncontracted = []
    for src_rel, header in tmpl.closed:
        try:
            src = open(os.path.join(repo, src_rel)).read()
            itext, _, _ = cut(src, "impl", header)
        except (CutError, OSError, ValueError) as e:
            raise UnitError("closed impl %s in %s: %s" % (header, src_rel, e))
        toks, _ = lex(itext, 1)
        depth = 0
        names = []
        for k, t in enumerate(toks):
            if t.text == "{":
                depth += 1
            elif t.text == "}":
                depth -= 1
            elif t.text == "fn" and depth == 1 and k + 1 < len(toks):
                names.append(toks[k + 1].text)
        have = {it.name for it in tmpl.items() if it.kind == "fn" and it.src == src_rel}
        for n in names:
            if n not in have:
                asm.uncontracted.append("%s::%s (%s)" % (header, n, src_rel))
    asm.text = "".join(chunks)
    # assumption scan (every run)
    all_lines = asm.text.split("\n")
    for n, ln in enumerate(all_lines, 1):
        if re.search(r"external_body|assume_specification|\bassume\s*\(|\badmit\s*\(|external_type_specification|verifier::external\b|uninterp spec", ln):
            if not ln.strip().startswith("//"):
                txt = ln.strip()
                if txt.startswith("#["):
                    # an attribute: report the item it is attached to (next non-attribute line) and its contract
                    k = n
                    while k < len(all_lines) and all_lines[k].strip().startswith("#["):
                        k += 1
                    if k < len(all_lines):
                        txt += " " + all_lines[k].strip()
                        if k + 1 < len(all_lines) and re.match(r"\s*(requires|ensures)", all_lines[k + 1]):
                            txt += " " + all_lines[k + 1].strip()
                asm.assumptions.append("%s:%d: %s" % (tmpl.unit, n, txt[:260]))
    return asm
