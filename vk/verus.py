"""Run Verus on an assembled unit and classify the outcome."""
import json
import os
import re
import subprocess
import tempfile
import time

VERUS = os.environ.get("VK_VERUS", "verus")

KIND_BY_MESSAGE = [
    ("postcondition not satisfied", "postcondition"),
    ("precondition not satisfied", "precondition"),
    ("invariant not satisfied", "invariant"),
    ("loop invariant", "invariant"),
    ("decreases not satisfied", "decreases"),
    ("could not prove termination", "decreases"),
    ("assertion failed", "assertion"),
    ("possible arithmetic underflow/overflow", "overflow"),
    ("possible division by zero", "overflow"),
    ("recommendation not met", "recommends"),
    ("Resource limit (rlimit) exceeded", "rlimit"),
    ("rlimit", "rlimit"),
    ("unable to prove post-condition of closure", "postcondition"),
    ("unreachable", "assertion"),
    ("index out of bounds", "precondition"),
]


class Diag:
    def __init__(self, d):
        self.raw = d
        self.message = d.get("message", "")
        self.level = d.get("level")
        self.rendered = d.get("rendered") or ""
        self.spans = d.get("spans", [])
        self.kind = None
        for pat, k in KIND_BY_MESSAGE:
            if pat in self.message:
                self.kind = k
                break

    def primary(self):
        for s in self.spans:
            if s.get("is_primary"):
                return s
        return self.spans[0] if self.spans else None

    def labelled(self, needle):
        for s in self.spans:
            if needle in (s.get("label") or ""):
                return s
        return None


class Result:
    def __init__(self):
        self.ok = False
        self.verified = 0
        self.errors = 0
        self.diags = []          # verification errors (Diag with .kind)
        self.hard_errors = []    # compile / unsupported / internal errors
        self.functions = []      # function breakdown
        self.smt_ms = 0
        self.total_ms = 0
        self.wall_s = 0.0
        self.stdout = ""
        self.stderr = ""
        self.cmd = ""
        self.timeout = False


def run(path, args=(), timeout=900, extra=()):
    cmd = [VERUS, path, "--error-format=json", "--output-json", "--time", "--multiple-errors", "10"] + list(args) + list(extra)
    r = Result()
    r.cmd = " ".join(cmd)
    t0 = time.time()
    try:
        p = subprocess.run(cmd, capture_output=True, text=True, timeout=timeout, cwd=os.path.dirname(path) or ".")
        r.stdout, r.stderr = p.stdout, p.stderr
    except subprocess.TimeoutExpired as e:
        r.timeout = True
        r.stdout = (e.stdout or b"").decode() if isinstance(e.stdout, bytes) else (e.stdout or "")
        r.stderr = (e.stderr or b"").decode() if isinstance(e.stderr, bytes) else (e.stderr or "")
    r.wall_s = time.time() - t0
    all_diags = []
    for ln in r.stderr.split("\n"):
        ln = ln.strip()
        if not ln.startswith("{"):
            continue
        try:
            d = json.loads(ln)
        except ValueError:
            continue
        if d.get("level") not in ("error",):
            continue
        dg = Diag(d)
        if dg.message.startswith("aborting due to"):
            continue
        all_diags.append(dg)
    # json result on stdout
    try:
        i = r.stdout.index("{")
        j = json.loads(r.stdout[i:])
        vr = j.get("verification-results", {})
        r.verified = vr.get("verified", 0)
        r.errors = vr.get("errors", 0)
        # Verification failures are reported only after type checking and VIR construction
        # succeeded: then `errors` > 0 and every error diagnostic is a refuted obligation.
        # Otherwise (syntax / type / unsupported construct) the diagnostics are hard errors.
        if r.errors > 0 and not vr.get("encountered-vir-error"):
            for dg in all_diags:
                if not dg.kind:
                    dg.kind = "unclassified"
                r.diags.append(dg)
        else:
            r.hard_errors += all_diags
        r.ok = bool(vr.get("success")) and not r.diags and not r.hard_errors
        if vr.get("encountered-vir-error") and not r.hard_errors:
            r.hard_errors.append(Diag({"message": "vir error", "level": "error", "rendered": r.stderr[-2000:]}))
        tm = j.get("times-ms", {})
        r.total_ms = tm.get("total", 0)
        smt = tm.get("smt", {})
        r.smt_ms = smt.get("total", 0)
        for mod in smt.get("smt-run-module-times", []):
            r.functions += mod.get("function-breakdown", [])
    except (ValueError, KeyError):
        r.hard_errors += all_diags
        if not r.hard_errors and not r.timeout:
            r.hard_errors.append(Diag({"message": "no json result from verus", "level": "error",
                                       "rendered": (r.stderr or r.stdout)[-3000:]}))
    return r


FN_RE = re.compile(r"^\s*(?:pub(?:\([a-z]+\))?\s+)?(?:(?:open|closed|uninterp)\s+)?(?:(?:proof|spec|exec|const)\s+)*fn\s+(\w+)")


def fn_spans(text):
    """[(name, first_line, last_line)] for every fn with a body in text (nested ones included)."""
    from .lex import lex
    toks, _ = lex(text)
    spans = []
    k = 0
    while k < len(toks) - 1:
        if toks[k].text == "fn" and re.match(r"[A-Za-z_]", toks[k + 1].text):
            name = toks[k + 1].text
            depth = 0
            j = k + 2
            body = None
            while j < len(toks):
                x = toks[j].text
                if x in "([":
                    depth += 1
                elif x in ")]":
                    depth -= 1
                elif x == ";" and depth == 0:
                    break
                elif x == "{" and depth == 0:
                    # a `{` that opens a spec expression block (if/match inside requires/ensures) is
                    # followed by a matching `}` and then more clause text; the body is the last
                    # top-level block before the next item. We take the first `{` that is preceded
                    # by `)` `>` an identifier, `,` or a clause end and is at bracket depth 0 and
                    # whose matching `}` is followed by something that cannot continue an expression.
                    d2 = 0
                    e = j
                    while e < len(toks):
                        if toks[e].text == "{":
                            d2 += 1
                        elif toks[e].text == "}":
                            d2 -= 1
                            if d2 == 0:
                                break
                        e += 1
                    nxt = toks[e + 1].text if e + 1 < len(toks) else "}"
                    if nxt in (",", ")", "&&", "||", "==", "else", "&", "|", "=", ".", "+", "-", "<", ">", "!", ";") and nxt != "}":
                        j = e + 1
                        continue
                    body = (j, e)
                    break
                j += 1
            if body:
                spans.append((name, toks[k].line, toks[body[1]].line))
        k += 1
    return spans


def enclosing_fn(text_lines, line_no, _cache={}):
    """Name of the innermost fn whose span contains line_no (1-based)."""
    key = id(text_lines)
    if key not in _cache:
        _cache.clear()
        _cache[key] = fn_spans("\n".join(text_lines))
    best = None
    for name, a, b in _cache[key]:
        if a <= line_no <= b and (best is None or (a >= best[1])):
            best = (name, a, b)
    return best[0] if best else None
