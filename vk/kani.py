"""Kani back end. Every run copies /repo's working tree (without target/ and .git) to a scratch
directory, appends `#[cfg(kani)] mod verif_kani { use super::*; … }` from /verif/kani/<x>.rs to the
END of the corresponding real source files (the real text above is untouched; the harnesses see
private fields), runs `cargo kani` on the harnesses and removes the scratch copy.

Three kinds of harness, always named as such in the evidence:
  complete   loop-free (or fully unwound with unwinding assertions on) over full-domain symbolic inputs
  inductive  one real operation from an arbitrary state satisfying the representation invariant;
             history-unbounded, only the capacity is enumerated
  bounded    a bounded stand-in (symbolic history of stated length); never counted as proved
"""
import fcntl
import json
import os
import re
import shutil
import subprocess
import tempfile
import time

ROOT = os.path.dirname(os.path.dirname(os.path.abspath(__file__)))
REPO = os.environ.get("VK_REPO", "/repo")
CACHE = os.environ.get("VK_KANI_TARGET", os.path.join(ROOT, ".cache", "kani-target"))


def _groups():
    p = os.path.join(ROOT, "kani", "groups.json")
    if not os.path.exists(p):
        return []
    return json.load(open(p))


def groups_for(prop, tier):
    out = []
    for g in _groups():
        if prop in g["props"]:
            hs = [h for h in g["harnesses"] if prop in h.get("props", g["props"])
                  and (tier == "thorough" or h.get("tier", "quick") == "quick")]
            if hs:
                g2 = dict(g)
                g2["harnesses"] = hs
                out.append(g2)
    return out


def all_props():
    s = set()
    for g in _groups():
        s |= set(g["props"])
    return s


def level_assumptions(prop):
    p = os.path.join(ROOT, "contracts", "assumptions.json")
    if os.path.exists(p):
        d = json.load(open(p))
        return d.get("*", []) + d.get(prop, [])
    return []


class KFailure:
    """Same interface as check.Failure."""

    def __init__(self, harness, desc, props, rendered, kind):
        self.unit, self.fn, self.kind, self.label = "kani", harness, kind, None
        self.clause, self.props, self.rendered, self.line = desc, props, rendered, 0
        self.backend = "kani+cbmc"
        self.input = None
        self._desc = desc

    @property
    def oid(self):
        d = re.sub(r"[^A-Za-z0-9]+", "-", self._desc)[:60].strip("-")
        return "kani::%s::%s" % (self.fn, self.kind)


def make_scratch(files):
    """Copy the workspace and append the harness modules. Returns the scratch dir."""
    d = tempfile.mkdtemp(prefix="vk-kani-")
    ws = os.path.join(d, "ws")
    shutil.copytree(REPO, ws, ignore=shutil.ignore_patterns("target", ".git"))
    for rel, harness_file in files.items():
        p = os.path.join(ws, rel)
        text = open(p).read()
        text += "\n\n// ---- appended by /verif/vk/kani.py from %s ----\n" % harness_file
        text += open(os.path.join(ROOT, "kani", harness_file)).read()
        open(p, "w").write(text)
    cfg = os.path.join(ws, ".cargo")
    os.makedirs(cfg, exist_ok=True)
    with open(os.path.join(cfg, "config.toml"), "a") as fh:
        fh.write("\n[net]\noffline = true\n")
    return d


def parse_output(out, names):
    """Per harness: status, checks, failed checks, failing descriptions, time.
    Handles both the sequential format ("Checking harness X...") and the -j format
    ("Thread k: Checking harness X..." / "Thread k: <result block>")."""
    res = {}
    cur_by_thread = {}
    blocks = {}     # name -> text
    cur = None
    for ln in out.split("\n"):
        m = re.match(r"^(?:Thread (\d+): )?Checking harness (\S+?)\.\.\.", ln)
        if m:
            th = m.group(1) or "0"
            name = m.group(2).split("::")[-1]
            cur_by_thread[th] = name
            blocks.setdefault(name, "")
            cur = name
            continue
        m = re.match(r"^Thread (\d+): ?(.*)$", ln)
        if m:
            cur = cur_by_thread.get(m.group(1))
            ln = m.group(2)
        if cur is not None:
            blocks[cur] += ln + "\n"
    for name, part in blocks.items():
        r = {"full": name, "status": "UNKNOWN", "checks": 0, "failed": 0, "descs": [], "seconds": 0.0, "text": part[-6000:]}
        mm = re.search(r"\*\* (\d+) of (\d+) failed", part)
        if mm:
            r["failed"], r["checks"] = int(mm.group(1)), int(mm.group(2))
        if "VERIFICATION:- SUCCESSFUL" in part:
            r["status"] = "SUCCESSFUL"
        elif "VERIFICATION:- FAILED" in part:
            r["status"] = "FAILED"
        mm = re.search(r"Verification Time: ([0-9.]+)s", part)
        if mm:
            r["seconds"] = float(mm.group(1))
        for fm in re.finditer(r"Failed Checks: (.*)\n(?:\s*File: \"([^\"]*)\", line (\d+), in (\S+))?", part):
            r["descs"].append({"desc": fm.group(1).strip(), "file": fm.group(2), "line": fm.group(3), "fn": fm.group(4)})
        if re.search(r"CBMC timed out|timed out after|[Tt]imeout", part) and r["status"] in ("UNKNOWN", "FAILED") and not r["descs"]:
            r["status"] = "TIMEOUT"
        # "VERIFICATION:- FAILED" without a check summary means CBMC itself died (memory, crash): undecided, never an alarm
        if re.search(r"out of memory|std::bad_alloc|SIGKILL|Killed|CBMC failed|CBMC crashed", part) and (r["status"] == "UNKNOWN" or r["checks"] == 0):
            r["status"] = "OOM"
        if r["status"] == "FAILED" and r["checks"] == 0 and not r["descs"]:
            r["status"] = "UNKNOWN"
        res[name] = r
    return res


def concrete_replay(ws, g, h, env, log, prop):
    """Kani's counterexample replayed natively against the real code: the harness is re-run with
    --concrete-playback=inplace (adds a #[test] with the concrete values of every kani::any()) and the
    generated test is executed with `cargo kani playback` in the scratch copy."""
    log("[%s]   kani: replaying the counterexample of %s against the real code …" % (prop, h["name"]))
    cmd = ["cargo", "kani", "-p", "nexosim", "-Z", "function-contracts", "-Z", "stubbing", "-Z", "unstable-options",
           "-Z", "concrete-playback", "--concrete-playback=inplace", "--target-dir", CACHE,
           "--harness", h["name"], "--output-format", "terse"]
    p = subprocess.run(cmd, cwd=ws, env=env, capture_output=True, text=True, timeout=h.get("timeout_s", 600) * 2)
    src = open(os.path.join(ws, g["file"])).read()
    m = re.search(r"(    /// Test generated for harness.*?kani::concrete_playback_run\(concrete_vals, \w+\);\n\s*\})", src, re.S)
    if not m:
        return {"ok": False, "text": "Kani produced no concrete playback test\n" + (p.stdout + p.stderr)[-1500:]}
    test = m.group(1)
    tn = re.search(r"fn (kani_concrete_playback_\w+)", test).group(1)
    env2 = dict(env, CARGO_TARGET_DIR=CACHE)
    p2 = subprocess.run(["cargo", "kani", "playback", "-Z", "concrete-playback", "-p", "nexosim", "--", tn],
                        cwd=ws, env=env2, capture_output=True, text=True, timeout=1200)
    out = p2.stdout + p2.stderr
    failed = "test result: FAILED" in out
    keep = [ln for ln in out.split("\n") if re.search(r"panicked at|assertion|test result|^test |failures:", ln)]
    return {"ok": failed, "test": test, "text": "generated test (concrete values of every kani::any()):\n" + test +
            "\n\nnative run of that test against the real code (cargo kani playback):\n" + "\n".join(keep[-20:])}


def run_groups(prop, groups, tier, log, cache=None):
    cache = cache if cache is not None else {}
    files = {}
    harnesses = []
    for g in groups:
        files[g["file"]] = g["harness_file"]
        for h in g["harnesses"]:
            harnesses.append((g, h))
    key = tuple(sorted(h["name"] for _, h in harnesses))
    todo = [(g, h) for g, h in harnesses if h["name"] not in cache]
    if todo:
        t0 = time.time()
        d = None
        os.makedirs(CACHE, exist_ok=True)
        lock = open(os.path.join(CACHE, ".vk-lock"), "w")
        fcntl.flock(lock, fcntl.LOCK_EX)      # one Kani run at a time per target directory
        try:
            d = make_scratch(files)
            ws = os.path.join(d, "ws")
            os.makedirs(CACHE, exist_ok=True)
            tmax = max(h.get("timeout_s", 600) for _, h in todo)
            cmd = ["cargo", "kani", "-p", "nexosim", "-Z", "function-contracts", "-Z", "stubbing", "-Z", "unstable-options",
                   "--target-dir", CACHE, "-j", str(min(8, len(todo))), "--harness-timeout", "%ds" % tmax,
                   "--output-format", "terse"]
            for _, h in todo:
                cmd += ["--harness", h["name"]]
            cmd.append("--exact") if False else None
            cmd = [c for c in cmd if c]
            env = dict(os.environ, CARGO_NET_OFFLINE="true")
            log("[%s] kani: %d harness(es) …" % (prop, len(todo)))
            try:
                p = subprocess.run(cmd, cwd=ws, env=env, capture_output=True, text=True, timeout=tmax * 2 + 900)
                out = p.stdout + "\n" + p.stderr
            except subprocess.TimeoutExpired as e:
                out = ((e.stdout or b"").decode(errors="replace") if isinstance(e.stdout, bytes) else (e.stdout or "")) + "\nGLOBAL TIMEOUT"
            out = "\n".join(ln for ln in out.split("\n") if not re.match(r"^(aborting path|Unwinding|Not unwinding)", ln))
            parsed = parse_output(out, [h["name"] for _, h in todo])
            cmdline = "(cd <scratch copy of /repo + appended harnesses> && " + " ".join(cmd) + ")"
            n_replayed = 0
            for g, h in todo:
                r = parsed.get(h["name"])
                if r is None:
                    r = {"status": "MISSING", "checks": 0, "failed": 0, "descs": [], "seconds": 0.0,
                         "text": out[-5000:], "full": h["name"]}
                r["cmd"] = cmdline
                r["wall_s"] = time.time() - t0
                if r["status"] == "FAILED" and n_replayed < 2 and not any("unwinding assertion" in x["desc"] for x in r["descs"]):
                    n_replayed += 1
                    try:
                        r["replay"] = concrete_replay(ws, g, h, env, log, prop)
                    except Exception as e:      # replay is best effort
                        r["replay"] = {"ok": False, "text": "replay failed: %r" % (e,)}
                cache[h["name"]] = r
        finally:
            if d:
                shutil.rmtree(d, ignore_errors=True)
            fcntl.flock(lock, fcntl.LOCK_UN)
            lock.close()
    results = []
    for g, h in harnesses:
        r = cache[h["name"]]
        kr = {"harness": h["name"], "kind": h["kind"], "bound": h.get("bound", ""), "checks": r["checks"],
              "failed_checks": r["failed"], "seconds": r["seconds"], "status": r["status"], "cmd": r.get("cmd", ""),
              "assumptions": g.get("assumptions", []) + h.get("assumptions", []), "failures": [], "undecided": [],
              "counts_as_proof": h["kind"] in ("complete", "inductive"), "what": h.get("what", "")}
        hp = set(h.get("props", g["props"]))
        if r["status"] == "SUCCESSFUL":
            pass
        elif r["status"] == "FAILED":
            descs = r["descs"] or [{"desc": "verification failed", "file": None, "line": None, "fn": None}]
            real = [x for x in descs if "unwinding assertion" not in x["desc"]]
            for x in descs:
                if "unwinding assertion" in x["desc"]:
                    # an unwinding assertion failure means the bound is too small: undecided, not a violation
                    kr["undecided"].append("unwinding bound too small: " + x["desc"])
            if real:
                text = "; ".join(sorted({"%s (%s:%s)" % (x["desc"], x["file"], x["line"]) for x in real}))
                f = KFailure(h["name"], text, hp, r["text"][-3500:], "failed-checks")
                f._desc = h["name"]
                rp = r.get("replay")
                if rp and rp.get("ok"):
                    f.input = rp["text"]
                elif rp:
                    f.rendered += "\n\n[replay attempt]\n" + rp.get("text", "")
                kr["failures"].append(f)
        else:
            kr["undecided"].append("%s (%s)" % (r["status"], r["text"][-300:].replace("\n", " | ")))
        log("[%s]   kani %s: %s, %d checks, %d failed, %.1fs (%s)" % (prop, h["name"], r["status"], r["checks"], r["failed"], r["seconds"], h["kind"]))
        results.append(kr)
    return results
