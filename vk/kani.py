"""Kani back end (filled in below): harness groups appended to the real files
in a scratch copy of /repo's working tree."""
import json
import os

ROOT = os.path.dirname(os.path.dirname(os.path.abspath(__file__)))


def _groups():
    p = os.path.join(ROOT, "kani", "groups.json")
    if not os.path.exists(p):
        return []
    return json.load(open(p))


def groups_for(prop, tier):
    out = []
    for g in _groups():
        if prop in g["props"] and (tier == "thorough" or g.get("tier", "quick") == "quick"):
            out.append(g)
    return out


def level_assumptions(prop):
    p = os.path.join(ROOT, "contracts", "assumptions.json")
    if os.path.exists(p):
        d = json.load(open(p))
        return d.get("*", []) + d.get(prop, [])
    return []


def all_props():
    return set().union(*[set(g["props"]) for g in _groups()]) if _groups() else set()


def run_groups(prop, groups, tier, log, cache=None):
    return []
