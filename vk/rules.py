"""Structural rewrite rules that a single regex cannot express.
Every function takes the item text (+ string arguments from the template's
`//@pyrule` line) and returns (new_text, number_of_hits)."""
import re
from .lex import lex, match_brace


def pub_fields(text):
    """`name: Type,` field lines of a struct -> `pub name: Type,` (Verus needs
    public fields to open them in spec functions). No semantic content."""
    n = 0
    out = []
    for ln in text.split("\n"):
        m = re.match(r"^(\s+)(?:pub(?:\([a-z]+\))?\s+)?([a-z_][A-Za-z0-9_]*\s*:.*)$", ln)
        if m and not ln.strip().startswith("//"):
            out.append(m.group(1) + "pub " + m.group(2))
            n += 1
        else:
            out.append(ln)
    return "\n".join(out), n


def _sig_span(text, fn_name=None):
    """(index of `fn` token, index of body `{` token, tokens) for the first fn
    (or the first fn called fn_name) in text."""
    toks, _ = lex(text)
    for k, t in enumerate(toks):
        if t.text == "fn" and k + 1 < len(toks) and (fn_name is None or toks[k + 1].text == fn_name):
            depth = 0
            j = k
            while j < len(toks):
                x = toks[j].text
                if x in "([":
                    depth += 1
                elif x in ")]":
                    depth -= 1
                elif x == "{" and depth == 0:
                    return k, j, toks
                j += 1
    return None


def name_ret(text, name, fn_name=None):
    """`-> T` in the signature of a fn becomes `-> (name: T)` so that the
    contract can refer to the result. No executable token changes meaning."""
    sp = _sig_span(text, fn_name or None)
    if not sp:
        return text, 0
    k, j, toks = sp
    depth = 0
    arrow = None
    for i in range(k, j):
        x = toks[i].text
        if x in "([":
            depth += 1
        elif x in ")]":
            depth -= 1
        elif x == "-" and toks[i + 1].text == ">" and depth == 0 and arrow is None:
            arrow = i
    if arrow is None:
        return text, 0
    # the return type ends at `where` or at the body
    end = j
    for i in range(arrow, j):
        if toks[i].text == "where":
            end = i
            break
    a = toks[arrow + 2].pos
    last = toks[end - 1]
    b = last.pos + len(last.text)
    return text[:a] + "(" + name + ": " + text[a:b] + ")" + text[b:], 1
