"""Structural rewrite rules that a single regex cannot express.
Every function takes the item text (+ string arguments from the template's
`//@pyrule` line) and returns (new_text, number_of_hits)."""
import re
from .lex import lex, match_brace


def pub_fields(text):
    """`name: Type,` field lines of a struct -> `pub name: Type,` (Verus needs
    public fields to open them in spec functions). No semantic content."""
    n = 0
    out = []
    for ln in text.split("\n"):
        m = re.match(r"^(\s+)(?:pub(?:\([a-z]+\))?\s+)?([a-z_][A-Za-z0-9_]*\s*:.*)$", ln)
        if m and not ln.strip().startswith("//"):
            out.append(m.group(1) + "pub " + m.group(2))
            n += 1
        else:
            out.append(ln)
    return "\n".join(out), n


def _sig_span(text, fn_name=None):
    """(index of `fn` token, index of body `{` token, tokens) for the first fn
    (or the first fn called fn_name) in text."""
    toks, _ = lex(text)
    for k, t in enumerate(toks):
        if t.text == "fn" and k + 1 < len(toks) and (fn_name is None or toks[k + 1].text == fn_name):
            depth = 0
            j = k
            while j < len(toks):
                x = toks[j].text
                if x in "([":
                    depth += 1
                elif x in ")]":
                    depth -= 1
                elif x == "{" and depth == 0:
                    return k, j, toks
                j += 1
    return None


def name_ret(text, name, fn_name=None):
    """`-> T` in the signature of a fn becomes `-> (name: T)` so that the
    contract can refer to the result. No executable token changes meaning."""
    sp = _sig_span(text, fn_name or None)
    if not sp:
        return text, 0
    k, j, toks = sp
    depth = 0
    arrow = None
    for i in range(k, j):
        x = toks[i].text
        if x in "([":
            depth += 1
        elif x in ")]":
            depth -= 1
        elif x == "-" and toks[i + 1].text == ">" and depth == 0 and arrow is None:
            arrow = i
    if arrow is None:
        return text, 0
    # the return type ends at `where` or at the body
    end = j
    for i in range(arrow, j):
        if toks[i].text == "where":
            end = i
            break
    a = toks[arrow + 2].pos
    last = toks[end - 1]
    b = last.pos + len(last.text)
    return text[:a] + "(" + name + ": " + text[a:b] + ")" + text[b:], 1


def _find_tok_seq(toks, seq, start=0):
    n = len(seq)
    for k in range(start, len(toks) - n + 1):
        if all(toks[k + i].text == seq[i] for i in range(n)):
            return k
    return -1


def _close(toks, k):
    """k: index of an opening token ( { [ | ; returns index of its partner."""
    pairs = {"{": "}", "(": ")", "[": "]"}
    o = toks[k].text
    c = pairs[o]
    d = 0
    for j in range(k, len(toks)):
        if toks[j].text == o:
            d += 1
        elif toks[j].text == c:
            d -= 1
            if d == 0:
                return j
    raise ValueError("unbalanced")


def closure_to_fn(text, name, extra_params, ret_type):
    """R11: `let NAME = |P| { B };` -> `fn NAME(P, EXTRA) -> RET { B }` and every
    call `NAME(args)` -> `NAME(args, <names of EXTRA>)`. The closure captures only
    the Copy locals listed in EXTRA (`a: T; b: U`). Needed because a closure's
    requires/ensures are not visible at call sites inside loop bodies."""
    toks, _ = lex(text)
    k = _find_tok_seq(toks, ["let", name, "=", "|"])
    if k < 0:
        return text, 0
    p0 = k + 3
    p1 = p0 + 1
    while toks[p1].text != "|":
        p1 += 1
    b0 = p1 + 1
    if toks[b0].text != "{":
        return text, 0
    b1 = _close(toks, b0)
    if toks[b1 + 1].text != ";":
        return text, 0
    params = text[toks[p0].pos + 1:toks[p1].pos]
    extra = [e.strip() for e in extra_params.split(";") if e.strip()]
    extra_names = [e.split(":")[0].strip() for e in extra]
    head = "fn %s(%s, %s) -> %s " % (name, params.strip(), ", ".join(extra), ret_type)
    body = text[toks[b0].pos:toks[b1].pos + 1]
    start = toks[k].pos
    end = toks[b1 + 1].pos + 1
    new = text[:start] + head + body + text[end:]
    # calls
    n = 1
    out = []
    i = 0
    toks2, _ = lex(new)
    pos_edits = []
    for j, t in enumerate(toks2):
        if t.text == name and j + 1 < len(toks2) and toks2[j + 1].text == "(" and toks2[j - 1].text != "fn":
            c = _close(toks2, j + 1)
            pos_edits.append(toks2[c].pos)
    for p in sorted(pos_edits, reverse=True):
        new = new[:p] + ", " + ", ".join(extra_names) + new[p:]
        n += 1
    return new, n


def break_value(text, fn_name, ty):
    """R5: in fn FN, the first `loop` whose `break`s carry a value becomes
    `let mut __brk: TY; loop { … { __brk = V; break; } … } __brk`
    (Verus: "complex break expressions unsupported"). Standard desugaring."""
    toks, _ = lex(text)
    k = _find_tok_seq(toks, ["fn", fn_name])
    if k < 0:
        return text, 0
    l = k
    while l < len(toks) and toks[l].text != "loop":
        l += 1
    if l >= len(toks) or toks[l + 1].text != "{":
        return text, 0
    e = _close(toks, l + 1)
    edits = []   # (start, end, replacement)
    n = 0
    j = l + 2
    while j < e:
        if toks[j].text == "break" and toks[j + 1].text not in (";", ",", "}"):
            # expression runs to `;` or `,` at depth 0
            d = 0
            m = j + 1
            while True:
                x = toks[m].text
                if x in "([{":
                    d += 1
                elif x in ")]}":
                    if d == 0:
                        break
                    d -= 1
                elif x in (";", ",") and d == 0:
                    break
                m += 1
            expr = text[toks[j + 1].pos:toks[m - 1].pos + len(toks[m - 1].text)]
            term = toks[m].text
            end = toks[m].pos + (1 if term == ";" else 0)
            edits.append((toks[j].pos, end, "{ __brk = %s; break; }" % expr))
            n += 1
            j = m
        j += 1
    if not n:
        return text, 0
    loop_pos = toks[l].pos
    loop_end = toks[e].pos + 1
    new = text
    new = new[:loop_end] + "\n            __brk" + new[loop_end:]
    for a, b, r in sorted(edits, reverse=True):
        new = new[:a] + r + new[b:]
    new = new[:loop_pos] + "let mut __brk: %s;\n            " % ty + new[loop_pos:]
    return new, n


def lift_map_err(text, method, err_ty, out_ty):
    """R9: `X.map_err(|e| { B })` where the closure captures `self` mutably ->
    `match X { Ok(v) => Ok(v), Err(e) => Err(self.METHOD(e)) }` plus a hoisted
    method `fn METHOD(&mut self, e: ERR) -> OUT { B }` placed after the function
    (B byte for byte; `return` keeps its meaning: it returned from the closure)."""
    toks, _ = lex(text)
    k = _find_tok_seq(toks, [".", "map_err", "(", "|", "e", "|", "{"])
    if k < 0:
        return text, 0
    b0 = k + 6
    b1 = _close(toks, b0)
    if toks[b1 + 1].text != ")":
        return text, 0
    # X: from the start of the statement (first token on a fresh line after `;` or `}`) to k
    s = k
    while s > 0 and toks[s - 1].text not in (";", "}", "{"):
        s -= 1
    x = text[toks[s].pos:toks[k].pos]
    body = text[toks[b0].pos:toks[b1].pos + 1]
    repl = "match %s { Ok(v) => Ok(v), Err(e) => Err(self.%s(e)) }" % (x.strip(), method)
    new = text[:toks[s].pos] + repl + text[toks[b1 + 1].pos + 1:]
    new = new.rstrip() + "\n\n    fn %s(&mut self, e: %s) -> %s %s\n" % (method, err_ty, out_ty, body)
    return new, 1


def gen_derive_partial_ord(struct_text):
    """Generated spec of `#[derive(PartialOrd)]`: lexicographic comparison of the fields in
    their DECLARED order (assumption about rustc's derive; follows the source, so swapping
    two fields in /repo changes the generated spec)."""
    m = re.search(r"struct\s+(\w+)\s*<([^>]*)>", struct_text)
    name = m.group(1)
    gparams = [g.strip().split(":")[0].strip() for g in m.group(2).split(",")]
    body = struct_text[struct_text.index("{") + 1:struct_text.rindex("}")]
    fields = []
    for ln in body.split("\n"):
        ln = ln.strip()
        if ln.startswith("//") or not ln:
            continue
        fm = re.match(r"(?:pub(?:\([a-z]+\))?\s+)?(\w+)\s*:\s*([^,]+),?", ln)
        if fm:
            fields.append((fm.group(1), fm.group(2).strip()))
    ints = ("u8", "u16", "u32", "u64", "u128", "usize", "i8", "i16", "i32", "i64", "i128", "isize")

    def cmp_expr(k):
        f, ty = fields[k]
        rest = cmp_expr(k + 1) if k + 1 < len(fields) else None
        if ty in ints:
            eq = rest if rest else "Some(Ordering::Equal)"
            return ("if self.%s < other.%s { Some(Ordering::Less) } else if self.%s == other.%s { %s } else { Some(Ordering::Greater) }"
                    % (f, f, f, f, eq))
        eq = rest if rest else "Some(Ordering::Equal)"
        return ("match PartialOrdSpec::partial_cmp_spec(&self.%s, &other.%s) { Some(Ordering::Equal) => %s, o => o, }" % (f, f, eq))
    gen = [g for g in gparams if g]
    bounds = ", ".join("%s: Copy + Clone + PartialOrd" % g for g in gen)
    obeys = " && ".join("%s::obeys_partial_cmp_spec()" % g for g in gen) or "true"
    txt = ("impl<%s> PartialOrdSpecImpl for %s<%s> {\n"
           "    open spec fn obeys_partial_cmp_spec() -> bool { %s }\n"
           "    open spec fn partial_cmp_spec(&self, other: &Self) -> Option<Ordering> {\n        %s\n    }\n}\n"
           % (bounds, name, ", ".join(gen), obeys, cmp_expr(0)))
    return txt


def abstract_action_ctor(text, lead="func, arg, address"):
    """R8: `let sender = address.into().0;` is dropped and
    `Action::new(X::new(<closure or future>, REST…))` becomes `mk_X(func, arg, address, REST…)`:
    the construction of the async event-sending future is not expressible in Verus. The period /
    key expressions (REST) are copied from the real statement so that they flow into the contract."""
    n = 0
    text, k = re.subn(r"\n[ \t]*let sender = address\.into\(\)\.0;", "", text)
    n += k
    toks, _ = lex(text)
    k = _find_tok_seq(toks, ["Action", ":", ":", "new", "("])
    if k < 0:
        return text, n
    o = k + 4
    c = _close(toks, o)
    # inner: X :: new ( args )
    x = toks[o + 1].text
    if [t.text for t in toks[o + 2:o + 6]] != [":", ":", "new", "("]:
        return text, n
    io = o + 5
    ic = _close(toks, io)
    # split args at top-level commas
    args = []
    d = 0
    start = toks[io].pos + 1
    j = io + 1
    while j < ic:
        t = toks[j].text
        if t in "([{":
            d += 1
        elif t in ")]}":
            d -= 1
        elif t == "|" and d == 0:
            pass
        elif t == "," and d == 0:
            args.append(text[start:toks[j].pos].strip())
            start = toks[j].pos + 1
        j += 1
    last = text[start:toks[ic].pos].strip()
    if last:
        args.append(last)
    rest = args[1:]
    lead_args = [a.strip() for a in lead.split(",") if a.strip() and a.strip() != "-"]
    # which async sender function the dropped closure / future is wired to (e.g. `|ek| send_keyed_event(ek, …)`):
    # kept as a marker argument so that "the model re-checks the key" stays an obligation
    via = "Via::Inline"
    if args:
        mm = re.search(r"\b(send_keyed_event|process_event)\s*\(", args[0])
        if mm:
            via = "Via::" + {"send_keyed_event": "SendKeyedEvent", "process_event": "ProcessEvent"}[mm.group(1)]
        elif re.search(r"\b[a-z_]\w*\s*\(", re.sub(r"\b(async|move|await|unwrap_or_throw|lock|unwrap|broadcast)\b", "", args[0])):
            via = "Via::Other"
    repl = "mk_%s(%s)" % (x, ", ".join(lead_args + rest + [via]))
    text = text[:toks[k].pos] + repl + text[toks[c].pos + 1:]
    return text, n + 1


def inline_guard(text, var, expr, lock_call, unlock_call):
    """R1b/R13: `let [mut] VAR = EXPR.lock().unwrap();` becomes LOCK_CALL and, from there to the end of
    the item, the guard variable is the locked object itself: `drop(VAR);` becomes UNLOCK_CALL and every
    other use of VAR becomes EXPR. (Nested fns defined BEFORE the lock statement keep their own
    parameter of the same name.)"""
    m = re.search(r"let (?:mut )?%s = %s\.lock\(\)\.unwrap\(\);" % (re.escape(var), re.escape(expr)), text)
    if not m:
        return text, 0
    head, tail = text[:m.start()], text[m.end():]
    n = 1
    # later re-acquisitions of the same lock
    tail, k = re.subn(r"let (?:mut )?%s = %s\.lock\(\)\.unwrap\(\);" % (re.escape(var), re.escape(expr)), lock_call, tail)
    n += k
    tail, k = re.subn(r"\bdrop\(%s\);" % re.escape(var), unlock_call, tail)
    n += k
    tail, k = re.subn(r"(?<![\w.])%s\b" % re.escape(var), expr, tail)
    n += k
    return head + lock_call + tail, n


def abstract_async_block(text, var, replacement):
    """R8: `let VAR = async move { … };` -> `let VAR = REPLACEMENT;` (async blocks are outside Verus;
    the block's captured values are passed to an abstract constructor named in the template)."""
    m = re.search(r"let %s = async (?:move )?\{" % re.escape(var), text)
    if not m:
        # the variable may have been renamed in /repo: any `let X = async move {` (exactly one) is the same construct
        ms = list(re.finditer(r"let (\w+) = async (?:move )?\{", text))
        if len(ms) != 1:
            return text, 0
        m = ms[0]
        var = m.group(1)
    o = m.end() - 1
    c = match_brace(text, o)
    # consume the trailing `;`
    e = c + 1
    while e < len(text) and text[e] in " \t":
        e += 1
    if e < len(text) and text[e] == ";":
        e += 1
    return text[:m.start()] + "let %s = %s;" % (var, replacement) + text[e:], 1


def mut_self_param(text):
    """R14: `fn f(mut self, …) { B }` -> `fn f(self, …) { let mut self_ = self; B[self := self_] }`
    (Verus: "mut self" unsupported). Standard desugaring of a `mut` binding of a by-value parameter."""
    sp = _sig_span(text)
    if not sp:
        return text, 0
    k, j, toks = sp
    m = None
    for i in range(k, j - 1):
        if toks[i].text == "mut" and toks[i + 1].text == "self":
            m = i
            break
    if m is None:
        return text, 0
    edits = [(toks[m].pos, toks[m + 1].pos, "")]
    body_open = toks[j].pos
    edits.append((body_open + 1, body_open + 1, "\n        let mut self_ = self;"))
    for t in toks[j + 1:]:
        if t.text == "self":
            edits.append((t.pos, t.pos + 4, "self_"))
    new = text
    for a, b, r in sorted(edits, reverse=True):
        new = new[:a] + r + new[b:]
    return new, len(edits)


def abstract_sender_ctor(text):
    """R8: every `Box::new(XSender::new(…))` -> `mk_sender()` - the construction of a port sender (closures over
    model inputs, mailbox senders) is not expressible in Verus; only its identity matters to the contract."""
    n = 0
    while True:
        m = re.search(r"Box::new\(\s*\w*Sender::new\(", text)
        if not m:
            break
        o = text.index("(", m.start())
        c = match_brace(text, o)
        text = text[:m.start()] + "mk_sender()" + text[c + 1:]
        n += 1
    return text, n


def de_async(text):
    """R8/R15: `pub async fn f` -> `pub fn f` and `.await` dropped: the function is verified as if the awaited
    future completed at once (the broadcast future itself is an opaque stub)."""
    t, n = re.subn(r"\basync fn\b", "fn", text)
    t, k = re.subn(r"\s*\.await\b", "", t)
    return t, n + k


def inline_self_reborrow(text):
    """R15: `let NAME[: &mut Self] = &mut *self;` is removed and NAME becomes `self` throughout (Pin erased: the reborrow is
    the identity). NAME is whatever /repo calls it (historically `this`)."""
    m = re.search(r"let (\w+)(?:\s*:\s*&mut Self)? = &mut \*self;\n", text)
    if not m:
        return text, 0
    name = m.group(1)
    out = text[:m.start()] + text[m.end():]
    out, n = re.subn(r"\b%s\b" % re.escape(name), "self", out)
    return out, n + 1


def abstract_let_block(text, var, starts_with, replacement):
    """R8: `let VAR = STARTS_WITH( ... );` (one statement, however many lines and nested closures) -> `let VAR = REPLACEMENT;`"""
    m = re.search(r"let %s = %s" % (re.escape(var), re.escape(starts_with)), text)
    if not m:
        return text, 0
    # the statement ends at the first `;` at nesting depth 0 after the match
    depth = 0
    i = m.end()
    while i < len(text):
        c = text[i]
        if c in "([{":
            depth += 1
        elif c in ")]}":
            depth -= 1
        elif c == ";" and depth == 0:
            break
        i += 1
    if i >= len(text):
        return text, 0
    return text[:m.start()] + "let %s = %s;" % (var, replacement) + text[i + 1:], 1
