"""Property-level driver: `python3 -m vk.check <PROPERTY> [--tier quick|thorough]`.

exit 0  every obligation mapped to the property is discharged (known findings are
        printed as KNOWN-FINDING lines and do not count)
exit 1  `VIOLATION property=<id> replay=<path>` : an obligation mapped to the
        property is refuted (Verus verification error under 3 SMT seeds, or Kani FAILED)
exit 2  `UNDECIDED …` : lost anchor, unsupported construct, rlimit, timeout.
"""
import argparse
import glob
import hashlib
import json
import os
import re
import shutil
import sys
import tempfile
import time

from . import unit as U
from . import verus as V

ROOT = os.path.dirname(os.path.dirname(os.path.abspath(__file__)))
CONTRACTS = os.path.join(ROOT, "contracts")
EVIDENCE = os.environ.get("VK_EVIDENCE", os.path.join(ROOT, "evidence"))
REPLAYS = os.environ.get("VK_REPLAYS", os.path.join(ROOT, "replays"))
KNOWN = os.path.join(ROOT, "KNOWN_FINDINGS.txt")
BUILD = os.environ.get("VK_BUILD") or os.path.join(ROOT, ".build", "run-%d" % os.getpid())   # per process: checks may run concurrently
LAST_VIOLATIONS = {}
XSIM_PROPS = {"C01", "C07", "C08", "C09", "C10", "C11", "C18"}
XREG_PROPS = {"C06", "C11", "C16"}
# parts of a claim that only a stand-in decides (so that its unavailability is never silent)
SOLE_DECIDER = {
    "xbcast": {"C14": "the first sentence of C14 (query broadcast)", "C17": "the last sentence of C17 (sending order through one output)"},
    "xchan": {"C12": "the send / recv / wake-up half of C12", "C06": "the in-flight counter moves of send / recv"},
    "xreg": {"C16": "init exactly once before the first message"},
    "xsched": {"C09": "the in-model re-check of a cancelled key"},
    "lcrw": {"C14": "the second sentence of C14 under thread interleavings"},
    "lqueue": {"C12": "the queue operations under thread interleavings"},
}
EXTRA_STANDINS = {
    "xreg": {"props": XREG_PROPS, "short": "real registration + report text, every model hierarchy up to the bound",
             "unit_of_count": "hierarchies", "scenario_word": "model hierarchy",
             "what": "contracts/xreg.rs: real text of simulation::add_model (with its real async model task), BuildContext, SimInit::{add_model,init}, Simulation::{new,run} cut from /repo with no rewrite rule, compiled against executable stubs, run on every model hierarchy up to the bound. LABELLED BOUNDED: not part of obligations/discharged."},
    "xsched": {"props": {"C07", "C08", "C09", "C10"}, "short": "real text of the scheduling requests and action kinds, every request up to the bound",
               "unit_of_count": "requests", "scenario_word": "request",
               "what": "contracts/xsched.rs: real text of GlobalScheduler::{time, schedule_from, schedule_*_event_from}, ActionKey, Action, ActionInner and its periodic/keyed impls, process_event, send_keyed_event, InputFn and util/priority_queue.rs cut from /repo with no rewrite rule, compiled against executable stubs (a Sender that delivers at once); every request up to the bound compared with the statements of C08/C09/C10. LABELLED BOUNDED: not part of obligations/discharged."},
    "xbcast": {"props": {"C14", "C17"}, "short": "real text of the output broadcasters and the task set, every query scenario up to the bound",
               "unit_of_count": "query scenarios", "scenario_word": "scenario",
               "what": "contracts/xbcast.rs: ports/output/broadcaster.rs and util/task_set.rs, each file whole up to its test modules, cut from /repo with no rewrite rule and compiled against executable stubs of diatomic_waker, futures_task and the Sender trait (scripted repliers); every query scenario up to the bound, on one thread, compared with the first sentence of C14. LABELLED BOUNDED: not part of obligations/discharged."},
    "xsink": {"props": {"C17"}, "short": "real text of both event sinks, every operation sequence up to the bound",
              "unit_of_count": "operation sequences", "scenario_word": "operation sequence",
              "what": "contracts/xsink.rs: ports/sink/event_buffer.rs and event_slot.rs (whole files) and the sink traits cut from /repo with no rewrite rule and compiled as they stand; every operation sequence up to the bound on one thread compared with a reference queue / option. LABELLED BOUNDED: not part of obligations/discharged."},
    "xexec": {"props": {"C06", "C11"}, "short": "real text of the single-threaded executor's run loop and report, every task script up to the bound",
              "unit_of_count": "task scripts", "scenario_word": "script",
              "what": "contracts/xexec.rs: ExecutorInner::run (+ ExecutorInner, its Drop, ExecutorContext) of executor/st_executor.rs, ExecutorError, ModelId and macros/scoped_thread_local.rs cut from /repo with no rewrite rule, compiled against scripted tasks; every script up to the bound, also nested in an enclosing executor, compared with C06 (sent minus received, nothing leaked from or into the enclosing executor) and C11 (a panic is reported as Panic with the model and payload). Single-threaded executor only. LABELLED BOUNDED: not part of obligations/discharged."},
    "xchan": {"props": {"C12", "C06"}, "short": "real text of channel.rs + channel/queue.rs, every cooperative schedule of two senders and the receiver up to the bound",
              "unit_of_count": "schedules", "scenario_word": "schedule",
              "what": "contracts/xchan.rs: channel.rs, channel/queue.rs and loom_exports.rs (whole files) compiled with no rewrite rule against executable stubs of async_event, diatomic_waker, recycle_box and crossbeam_utils; two sender tasks and the receiver task of one mailbox under every cooperative schedule on one thread, with a dropped blocked send or a dropped receiver; compared with C12 (capacity, exactly once in producer order, length, waiting tasks resumed, close) and C06 (in-flight counter). LABELLED BOUNDED: not part of obligations/discharged."},
    "lcrw": {"props": {"C14"}, "runner": "loom", "short": "loom: the real CachedRwLock under every thread interleaving within the preemption bound",
             "unit_of_count": "loom models", "scenario_word": "interleaving",
             "what": "loom/cached_rw_lock.rs appended to the real util/cached_rw_lock.rs in a scratch copy and run with the crate's own loom configuration (--cfg nexosim_loom): three threads writing through / refreshing clones of one CachedRwLock, every interleaving within loom's preemption bound; a read that happens after a write returned sees it, a clone's view never goes back. LABELLED BOUNDED: not part of obligations/discharged."},
    "lqueue": {"props": {"C12"}, "runner": "loom", "short": "loom: the real mailbox Queue, two producers and the consumer under every thread interleaving within the preemption bound",
               "unit_of_count": "loom models", "scenario_word": "interleaving",
               "what": "loom/queue.rs appended to the real channel/queue.rs in a scratch copy and run with the crate's own loom configuration: two producer threads pushing two messages each while the consumer pops, capacities 2 and 3, every interleaving within loom's preemption bound (2 quick, 3 thorough); capacity, exactly-once, per-producer order, exact len() at rest. LABELLED BOUNDED: not part of obligations/discharged."},
    "xpq": {"props": {"C20", "C07"}, "short": "real text of both priority queues, every operation sequence up to the bound",
            "unit_of_count": "operation sequences", "scenario_word": "operation sequence",
            "what": "contracts/xpq.rs: util/priority_queue.rs and util/indexed_priority_queue.rs, each file whole up to its test module, cut from /repo with no rewrite rule and compiled as they stand; every operation sequence up to the bound compared with a reference list. LABELLED BOUNDED: not part of obligations/discharged."},
}


def log(*a):
    print(*a, flush=True)


def norm_clause(s):
    s = re.sub(r"//.*$", "", s.strip())
    return re.sub(r"\s+", " ", s).strip().rstrip(",")


class Failure:
    def __init__(self, unit, fn, kind, label, clause, props, rendered, line, backend="verus"):
        self.unit, self.fn, self.kind, self.label = unit, fn, kind, label
        self.clause, self.props, self.rendered, self.line = clause, props, rendered, line
        self.backend = backend
        self.input = None      # concrete failing input, when a back end gives one

    @property
    def oid(self):
        lab = self.label or hashlib.sha1(norm_clause(self.clause).encode()).hexdigest()[:8]
        return "%s::%s::%s::%s" % (self.unit, self.fn, self.kind, lab)


def unit_templates():
    out = {}
    for p in sorted(glob.glob(os.path.join(CONTRACTS, "*.rs"))):
        t = U.Template(p)
        if t.exec:
            continue
        out[t.unit] = t
    return out


def classify(tmpl, asm, res):
    """Verus diagnostics -> (failures, undecided_reasons, canary_hits)."""
    lines = asm.text.split("\n")
    fails, undecided, canary = [], [], set()
    for d in res.hard_errors:
        undecided.append("verus error: " + (d.message or "")[:200])
    if res.timeout:
        undecided.append("verus timeout")
    base = os.path.basename(asm.path)

    def ours(span):
        return span is not None and os.path.basename(span.get("file_name", "")) == base
    for d in res.diags:
        sp = d.primary()
        if sp is None:
            undecided.append("diagnostic without span: " + d.message)
            continue
        clause_sp = d.labelled("failed this") or d.labelled("failed precondition") or sp
        # the site is where the obligation arises (call site, function exit, loop exit) - a span
        # of the unit file other than the clause itself, when there is one
        site_sp = next((x for x in d.spans if ours(x) and x is not clause_sp), None)
        if site_sp is None:
            site_sp = sp if ours(sp) else next((x for x in d.spans if ours(x)), None)
        if site_sp is None:
            undecided.append("diagnostic outside the unit file: " + d.message)
            continue
        site_line = site_sp["line_start"]
        fn = V.enclosing_fn(lines, site_line)
        if d.kind == "postcondition" and ours(clause_sp):
            fn = V.enclosing_fn(lines, clause_sp["line_start"])
        if fn and fn.endswith("__canary"):
            canary.add(fn)
            continue
        _site = asm.line_info(site_line)
        if _site is not None and _site["part"] == "canary":
            continue
        if d.kind == "rlimit":
            undecided.append("rlimit exceeded in %s" % fn)
            continue
        same_file = ours(clause_sp)
        info = asm.line_info(clause_sp["line_start"]) if same_file else None
        site = asm.line_info(site_line)
        props = label = None
        if info is not None and info["ghost"]:
            props, label = info["props"], info["label"]
            # multi-line clause: the label may sit on a later line of the span
            for ln_no in range(clause_sp["line_start"], clause_sp.get("line_end", clause_sp["line_start"]) + 1):
                i2 = asm.line_info(ln_no)
                if i2 and i2["ghost"] and (label is None and i2["label"]):
                    label = i2["label"]
                if i2 and i2["ghost"] and props is None and i2["props"]:
                    props = i2["props"]
        item_id = site["item"] if site else None
        if props is None:
            if item_id and asm.items[item_id]["props"]:
                props = set(asm.items[item_id]["props"])
            else:
                props = set(tmpl.props)
        if site is not None and site["part"] == "prelude" and d.kind != "precondition":
            # a lemma / stub of the prelude does not verify: proof machinery, not /repo
            undecided.append("prelude function %s does not verify (%s)" % (fn, d.kind))
            continue
        clause = "\n".join(t["text"] for t in clause_sp.get("text", []))
        if not same_file and len(props) > 1:
            # an obligation of the verifier's own library (arithmetic overflow, index in bounds, unwrap of None ...) at a
            # site that serves several properties: it says that the code may panic there, not WHICH property that breaks.
            # Reported as undecided, never as a violation of every property the function is registered for.
            undecided.append("unattributed library obligation fails in %s (line %d of the assembled file): %s [%s:%s]" % (
                fn, site_line, (d.message or "")[:80], os.path.basename(clause_sp.get("file_name", "")), clause_sp.get("line_start")))
            continue
        if not same_file:
            clause = "\n".join(t["text"] for t in site_sp.get("text", [])) + "  [clause in vstd: %s:%s %s]" % (
                clause_sp.get("file_name"), clause_sp.get("line_start"), " ".join(t["text"].strip() for t in clause_sp.get("text", [])))
            label = label or "vstd-%s-%s" % (os.path.basename(clause_sp.get("file_name", "")).replace(".rs", ""), clause_sp.get("line_start"))
        f = Failure(tmpl.unit, fn or "?", d.kind, label, clause, set(props), d.rendered, site_line)
        if f.oid not in {x.oid for x in fails}:
            fails.append(f)
    return fails, undecided, canary


def add_canaries(tmpl, asm):
    """Duplicate every item flagged canary=1 as NAME__canary with `ensures false`.
    Each copy must FAIL to verify; otherwise the preconditions / prelude are
    contradictory and every proof of the unit is vacuous."""
    names = []
    lines = asm.text.split("\n")
    extra_blocks = []
    for it in tmpl.items():
        if not it.canary:
            continue
        meta = asm.items[it.id]
        seg = "\n".join(lines[meta["first_line"] - 1:meta["last_line"]])
        seg2, n = re.subn(r"\bfn\s+%s\b" % re.escape(it.name), "fn %s__canary" % it.name, seg, count=1)
        seg2, m = re.subn(r"\bensures\b", "ensures false,", seg2, count=1)
        if n != 1 or m != 1:
            raise U.UnitError("canary for %s cannot be built" % it.id)
        extra_blocks.append((meta["last_line"], seg2, it.name + "__canary"))
        names.append(it.name + "__canary")
    # insert from the bottom so that line numbers of earlier parts stay valid
    for last_line, seg2, nm in sorted(extra_blocks, reverse=True):
        seg_lines = seg2.split("\n")
        lines[last_line:last_line] = seg_lines
        asm.lines[last_line:last_line] = [{"part": "canary", "item": None, "ghost": True, "props": None,
                                           "label": None, "tline": None, "src": "T"}] * len(seg_lines)
        for meta in asm.items.values():
            if meta["first_line"] > last_line:
                meta["first_line"] += len(seg_lines)
                meta["last_line"] += len(seg_lines)
    asm.text = "\n".join(lines)
    return names


def run_unit(tmpl, tier, seeds=(0, 1, 2)):
    """Assemble + verify one unit. Returns dict with everything the evidence needs."""
    out = {"unit": tmpl.unit, "failures": [], "undecided": [], "verified": 0, "functions": [],
           "smt_ms": 0, "wall_s": 0.0, "drift": {}, "fired": [], "assumptions": [], "cmd": "",
           "items": {}, "canaries": [], "runs": 0}
    t0 = time.time()
    try:
        asm = U.assemble(tmpl)
        canaries = add_canaries(tmpl, asm)
    except U.UnitError as e:
        out["undecided"].append(str(e))
        out["wall_s"] = time.time() - t0
        return out
    os.makedirs(BUILD, exist_ok=True)
    path = os.path.join(BUILD, "%s_unit.rs" % tmpl.unit)
    asm.path = path
    open(path, "w").write(asm.text)
    out["fired"], out["assumptions"], out["items"] = asm.fired, asm.assumptions, asm.items
    out["drift"] = {k: v["drift"] for k, v in asm.items.items() if v["drift"]}
    out["canaries"] = canaries
    res = V.run(path, tmpl.verus_args)
    out["runs"] = 1
    if res.hard_errors and out["drift"]:
        # the merged text does not compile: try the other placement of inserted tokens
        try:
            asm2 = U.assemble(tmpl, flip=True)
            add_canaries(tmpl, asm2)
            asm2.path = path
            open(path, "w").write(asm2.text)
            res2 = V.run(path, tmpl.verus_args)
            out["runs"] += 1
            if not res2.hard_errors:
                asm, res = asm2, res2
                out["fired"], out["assumptions"], out["items"] = asm.fired, asm.assumptions, asm.items
            else:
                open(path, "w").write(asm.text)
        except U.UnitError:
            pass
    out["cmd"] = res.cmd
    fails, undecided, canary_hits = classify(tmpl, asm, res)
    # a function in which a library obligation (overflow, unwrap, index) cannot be shown calls code whose effect the unit
    # does not model at that point (typically: a rewrite rule did not fire on a reshaped call): what else fails in that
    # function may be a consequence of it - undecided, never an alarm
    lib_fns = set(re.findall(r"unattributed library obligation fails in (\w+)", " ".join(undecided)))
    if lib_fns and fails:
        kept = []
        for f in fails:
            if f.fn in lib_fns:
                undecided.append("obligation %s is undecided: %s calls library code that the unit does not model there" % (f.oid, f.fn))
            else:
                kept.append(f)
        fails = kept
    for u in getattr(asm, "uncontracted", []):
        undecided.append("function without a contract in a type whose invariant the unit relies on: %s" % u)
    out["verified"], out["functions"], out["smt_ms"] = res.verified, res.functions, res.smt_ms
    out["verus_version_ok"] = True
    missing = [c for c in canaries if c not in canary_hits]
    if missing and not undecided:
        undecided.append("vacuity canary verified (contradictory preconditions or prelude): " + ",".join(missing))
    # flaky-proof guard: an obligation counts as refuted only if it fails under every seed
    if fails and not res.hard_errors:
        surviving = {f.oid: f for f in fails}
        for s in seeds[1:]:
            extra = ["--smt-option", "smt.random_seed=%d" % s, "--rlimit", "60"]
            r2 = V.run(path, [a for a in tmpl.verus_args if not a.startswith("--rlimit") and not re.match(r"^\d+$", a)], extra=extra)
            out["runs"] += 1
            f2, u2, _ = classify(tmpl, asm, r2)
            if r2.hard_errors or r2.timeout:
                continue
            ids2 = {f.oid for f in f2}
            rl = [u for u in u2 if u.startswith("rlimit")]
            for oid in list(surviving):
                if oid not in ids2:
                    fn = surviving[oid].fn
                    if any(fn in u for u in rl):
                        continue   # not refuted and not proved under this seed
                    del surviving[oid]
            if not surviving:
                break
        fails = list(surviving.values())
    # lost anchors: proof text (invariants, lemma calls, assertions) sitting strictly inside a span that /repo deleted or
    # replaced was dropped by the merge. A failed obligation of such an item may be a lost proof hint rather than a
    # broken property: undecided, never an alarm (the bounded stand-ins still decide within their bound).
    lost = {k for k, v in asm.items.items() if any((d.get("ghost_dropped") or "").strip() for d in (v.get("drift") or []))}
    if lost and fails:
        kept = []
        for f in fails:
            info = asm.line_info(f.line)
            it = info["item"] if info else None
            if it in lost:
                undecided.append("lost anchor: proof annotations inside a rewritten span of %s were dropped by the merge; "
                                 "obligation %s is undecided" % (it, f.oid))
            else:
                kept.append(f)
        fails = kept
    out["failures"], out["undecided"] = fails, undecided
    out["wall_s"] = time.time() - t0
    out["path"] = path
    out["asm"] = asm
    out["stderr_tail"] = res.stderr[-4000:]
    return out


def load_known():
    known, fixed = [], []
    if os.path.exists(KNOWN):
        for ln in open(KNOWN):
            ln = ln.strip()
            if ln.startswith("finding:"):
                kv = dict(re.findall(r"(\w+)=(\S+)", ln))
                known.append({"property": kv.get("property"), "obligation": kv.get("obligation"),
                              "what": ln.split(" -- ", 1)[1] if " -- " in ln else ln})
            elif ln.startswith("fixed:"):
                fixed.append(ln)
    return known, fixed


def write_replay(prop, f, unit_out):
    os.makedirs(os.path.join(REPLAYS, prop), exist_ok=True)
    name = re.sub(r"[^A-Za-z0-9_.-]+", "_", f.oid)
    path = os.path.join(REPLAYS, prop, name + ".txt")
    with open(path, "w") as fh:
        fh.write("property: %s\nfailed obligation: %s\nback end: %s\nkind: %s\nfunction: %s\n" % (prop, f.oid, f.backend, f.kind, f.fn))
        fh.write("clause:\n%s\n\n" % f.clause)
        if f.input:
            fh.write("failing input (replayed against the real code):\n%s\n\n" % f.input)
        else:
            fh.write("no-failing-input-found: the verifier refuted the obligation on the text extracted from /repo "
                     "but produced no model; see the drift and the verifier output below.\n\n")
        drift = unit_out.get("drift") or {}
        if drift:
            fh.write("difference between /repo's current text and the text the contract was written against (exec tokens):\n")
            fh.write(json.dumps(drift, indent=1) + "\n\n")
        fh.write("verifier output:\n%s\n" % f.rendered)
        fh.write("\nre-run: cd /verif && VK_KEEP_BUILD=1 ./check %s   (keeps the assembled file %s)\n" % (prop, unit_out.get("path", "")))
    return path


def main(argv=None):
    ap = argparse.ArgumentParser()
    ap.add_argument("props", nargs="+")
    ap.add_argument("--tier", default=os.environ.get("VERIF_TIER", "quick"))
    ap.add_argument("--replay", default=None)
    args = ap.parse_args(argv)
    tier = args.tier if args.tier in ("quick", "thorough") else "quick"
    if args.replay:
        # show the stored counterexample / verifier output, then re-run the property on the current tree and say whether
        # the named obligation is still refuted (exit 1) or not (exit 0)
        text = open(args.replay).read()
        print(text)
        m_oid = re.search(r"^failed obligation: (\S+)", text, flags=re.M)
        m_prop = re.search(r"^property: (\w+)", text, flags=re.M)
        if not (m_oid and m_prop):
            return 0
        from . import kani as K
        tmpls = unit_templates()
        log("---- re-running %s on the current tree ----" % m_prop.group(1))
        try:
            evaluate(m_prop.group(1), tier, tmpls, {}, {})
        finally:
            if not os.environ.get("VK_BUILD") and not os.environ.get("VK_KEEP_BUILD"):
                shutil.rmtree(BUILD, ignore_errors=True)
        still = m_oid.group(1) in LAST_VIOLATIONS.get(m_prop.group(1), [])
        log("replay: obligation %s is %s on the current tree" % (m_oid.group(1), "STILL REFUTED" if still else "not refuted"))
        return 1 if still else 0
    from . import kani as K
    tmpls = unit_templates()
    props = args.props
    if props == ["all"]:
        props = sorted(set().union(*[t.props for t in tmpls.values()]) | K.all_props())
    unit_cache, kani_cache = {}, {}
    rc = 0
    try:
        for prop in props:
            r = evaluate(prop, tier, tmpls, unit_cache, kani_cache)
            rc = max(rc, r) if r != 1 and rc != 1 else 1
    finally:
        if not os.environ.get("VK_BUILD") and not os.environ.get("VK_KEEP_BUILD"):
            shutil.rmtree(BUILD, ignore_errors=True)
    return rc


def evaluate(prop, tier, tmpls, unit_cache, kani_cache):
    from . import kani as K
    seed = int(os.environ.get("VERIF_SEED", "0") or 0)
    t0 = time.time()
    units = [t for t in tmpls.values() if prop in t.props]
    kgroups = K.groups_for(prop, tier)
    if not units and not kgroups:
        log("no unit serves %s" % prop)
        return 2
    results = []
    for t in units:
        if t.unit not in unit_cache:
            log("[%s] verus unit %s …" % (prop, t.unit))
            r = run_unit(t, tier)
            log("[%s]   unit %s: %d verified, %d refuted, %d undecided, %.1fs%s" % (
                prop, t.unit, r["verified"], len(r["failures"]), len(r["undecided"]), r["wall_s"],
                " (drift in %s)" % ",".join(r["drift"]) if r["drift"] else ""))
            unit_cache[t.unit] = r
        results.append(unit_cache[t.unit])
    kres = []
    if kgroups:
        kres = K.run_groups(prop, kgroups, tier, log, kani_cache)
    # bounded executable stand-in for the scheduler kernel (never counted as proof)
    xs = None
    if prop in XSIM_PROPS:
        if "__xsim__" not in unit_cache:
            from . import xsim as X
            log("[%s] bounded stand-in xsim (real text + executable stubs, exhaustive up to the bound) …" % prop)
            unit_cache["__xsim__"] = X.run(tier, BUILD)
            x = unit_cache["__xsim__"]
            log("[%s]   xsim: %s scenarios, %d failing checks, %.1fs%s" % (prop, x["scenarios"], len(x["failures"]), x["wall_s"],
                                                                         " UNAVAILABLE: " + x["undecided"] if x["undecided"] else ""))
        xs = unit_cache["__xsim__"]
    known, fixed = load_known()
    violations, known_hits, undecided = [], [], []
    all_fail = []
    for r in results:
        undecided += ["%s: %s" % (r["unit"], u) for u in r["undecided"]]
        for f in r["failures"]:
            if prop in f.props:
                all_fail.append((f, r))
            elif not (f.props & set(tmpls[r["unit"]].props)):
                # a refuted obligation attributed only to properties this unit is not registered for would be seen by
                # no check at all: never silently ignored
                undecided.append("%s: refuted obligation %s is attributed to %s, for which unit %s is not registered" % (
                    r["unit"], f.oid, ",".join(sorted(f.props)), r["unit"]))
    for kr in kres:
        undecided += ["kani %s: %s" % (kr["harness"], u) for u in kr["undecided"]]
        for f in kr["failures"]:
            all_fail.append((f, kr))
    xfails = []
    if xs and xs["ok"]:
        for xf in xs["failures"]:
            if prop in xf["props"].split(","):
                xfails.append(xf)
    # further bounded stand-ins (contracts/x*.rs): real text + executable stubs, exhaustive up to their bound
    extra = {}
    for xname, xdef in EXTRA_STANDINS.items():
        if prop not in xdef["props"]:
            continue
        ck = "__%s__" % xname
        if ck not in unit_cache:
            from . import xsim as X
            log("[%s] bounded stand-in %s (%s) …" % (prop, xname, xdef["short"]))
            if xdef.get("runner") == "loom":
                from . import loomrun as L
                unit_cache[ck] = L.run(tier, BUILD, xname)
            else:
                unit_cache[ck] = X.run(tier, BUILD, xname)
            x = unit_cache[ck]
            log("[%s]   %s: %s %s, %d failing checks, %.1fs%s" % (prop, xname, x["scenarios"], xdef["unit_of_count"], len(x["failures"]), x["wall_s"],
                                                                 " UNAVAILABLE: " + x["undecided"] if x["undecided"] else ""))
        xe = unit_cache[ck]
        extra[xname] = xe
        if not xe["ok"] and prop in SOLE_DECIDER.get(xname, {}):
            # this stand-in is the only thing that decides a part of the claim for this property: without it that part
            # is undecided, whatever the proof route says about the rest
            undecided.append("stand-in %s, the only decider of %s, is unavailable: %s" % (xname, SOLE_DECIDER[xname][prop], (xe["undecided"] or "")[:200]))
        if xe["ok"]:
            for xf in xe["failures"]:
                if prop in xf["props"].split(","):
                    f = Failure(xname, xf["check"], "bounded", xf["check"], xf["detail"], set(xf["props"].split(",")),
                                "bounded executable stand-in: " + xe["cmd"], 0, backend="rustc+native run (bounded)")
                    f.input = "%s: %s\nobserved: %s\nbound: %s" % (xdef["scenario_word"], json.dumps(xf["scenario"]), xf["detail"], xe["bound"])
                    all_fail.append((f, {"drift": {r["unit"]: r["drift"] for r in results if r["drift"]}, "path": os.path.join(BUILD, xname + "_unit.rs")}))
    xr = extra.get("xreg")
    # a concrete failing input found by a stand-in for this property also documents the obligations Verus refuted for it
    ex_inputs = [f.input for f, _ in all_fail if f.backend.startswith("rustc") and f.input]
    if ex_inputs:
        for f, _ in all_fail:
            if f.input is None and f.backend == "verus":
                f.input = "found by a bounded stand-in on the real text (same property):\n" + ex_inputs[0]
    if xfails:
        # a concrete scenario on which the real text contradicts the property statement (bounded search):
        # it becomes the failing input of the obligations Verus refuted for this property, and a
        # violation of its own when the proof route is undecided or silent
        inp = "\n".join("check %s failed on %d scenario(s); first one:\n  scenario: %s\n  observed: %s" % (
            xf["check"], xf["count"], json.dumps(xf["scenario"]), xf["detail"]) for xf in xfails)
        inp += "\n(found by exhaustive bounded exploration of the real text of the scheduler kernel against executable stubs: " + xs["bound"] + ")"
        for f, r in all_fail:
            if f.input is None and f.backend == "verus":
                f.input = inp
        # the first counterexample is also replayed against the REAL crate through its public API
        real = None
        if os.environ.get("VK_NO_REAL_REPLAY") != "1":
            key = "__real__" + xfails[0]["check"]
            if key not in unit_cache:
                from . import realreplay as RR
                try:
                    unit_cache[key] = RR.run(xfails[0], lambda *a: log("[%s]   " % prop + " ".join(a)))
                except Exception as e:       # best effort
                    unit_cache[key] = {"ok": False, "text": "real-crate replay failed: %r" % (e,)}
            real = unit_cache[key]
            tag = ("REPRODUCED on the real crate" if real["ok"] else "not reproduced on the real crate (see text)")
            inp += "\n\nreplay against the real crate: %s\n%s" % (tag, real["text"])
            for f, r in all_fail:
                if f.backend == "verus" and f.input is not None:
                    f.input = inp
        for xf in xfails:
            f = Failure("xsim", xf["check"], "bounded", xf["check"], xf["detail"], set(xf["props"].split(",")),
                        "bounded executable stand-in: " + xs["cmd"], 0, backend="rustc+native run (bounded)")
            f.input = "scenario: %s\nobserved: %s\nbound: %s" % (json.dumps(xf["scenario"]), xf["detail"], xs["bound"])
            if real is not None and xf is xfails[0]:
                f.input += "\n\nreplay against the real crate: %s\n%s" % (tag, real["text"])
            f.scenario = xf
            all_fail.append((f, {"drift": {r["unit"]: r["drift"] for r in results if r["drift"]}, "path": os.path.join(BUILD, "xsim_unit.rs")}))
    for f, r in all_fail:
        k = [x for x in known if x["property"] == prop and x["obligation"] == f.oid]
        if k:
            known_hits.append((f, k[0]))
        else:
            violations.append((f, r))
    # evidence
    fn_list, trusted, fired, samples = [], [], [], []
    n_obl = n_dis = 0
    smt_ms = 0
    cmds = []
    for r in results:
        asm_items = r.get("items", {})
        for iid, meta in asm_items.items():
            fn_list.append("%s:%s (%s lines %d-%d)%s" % (r["unit"], iid, meta["src"], meta["repo_lines"][0], meta["repo_lines"][1],
                                                         " DRIFT" if meta["drift"] else ""))
        failed_fns = {f.fn for f in r["failures"]}
        for fb in r["functions"]:
            nm = fb["function"].split("::", 1)[-1]
            if nm.endswith("__canary"):
                continue
            n_obl += 1
            ok = fb.get("success") and nm.split("::")[-1] not in failed_fns
            n_dis += 1 if ok else 0
            if len(samples) < 12:
                samples.append({"backend": "verus+z3", "obligation": "%s::%s" % (r["unit"], nm), "mode": fb.get("mode:"),
                                "discharged": bool(ok), "smt_ms": fb.get("time")})
        trusted += r["assumptions"]
        fired += r["fired"]
        smt_ms += r["smt_ms"]
        if r["cmd"]:
            cmds.append(r["cmd"])
    for kr in kres:
        if kr["counts_as_proof"]:      # bounded harnesses are labelled bounded and never counted as proved
            n_obl += kr["checks"]
            n_dis += kr["checks"] - kr["failed_checks"]
        trusted += kr["assumptions"]
        cmds.append(kr["cmd"])
        samples.append({"backend": "kani+cbmc", "obligation": kr["harness"], "kind": kr["kind"], "counted_as_proof": kr["counts_as_proof"], "bound": kr["bound"],
                        "checks": kr["checks"], "failed": kr["failed_checks"], "seconds": kr["seconds"]})
    clause_samples = []
    for r in results:
        asm = r.get("asm")
        if not asm:
            continue
        for n, info in enumerate(asm.lines, 1):
            if info["ghost"] and info["part"] == "item" and info["label"] and (info["props"] is None or prop in info["props"]):
                clause_samples.append({"unit": r["unit"], "item": info["item"], "label": info["label"],
                                       "clause": norm_clause(asm.text.split("\n")[n - 1])[:240]})
    ev = {
        "property_id": prop, "tier": tier, "seed": seed, "level": "proof",
        "coverage": {
            "obligations": n_obl, "discharged": n_dis,
            "checker_cmd": " ; ".join(cmds)[:1500],
            "trusted_base": sorted(set(trusted))[:400],
            "samples": samples + clause_samples[:25],
            "functions_under_contract": fn_list,
            "rewrite_rules_fired": fired,
            "drift": {r["unit"]: r["drift"] for r in results if r["drift"]},
            "verus_runs": sum(r["runs"] for r in results),
            "solver_seconds": round(smt_ms / 1000.0 + sum(k["seconds"] for k in kres), 2),
            "kani": [{k: v for k, v in kr.items() if k not in ("failures",)} for kr in kres],
            "known_findings_hit": [f.oid for f, _ in known_hits],
            "bounded_stand_in": ({"what": "contracts/xsim.rs: real text of Simulation::{step,step_until,process,run,step_to_next_bounded,step_until_unchecked}, util/priority_queue.rs and util/seq_futures.rs cut from /repo with no rewrite rule, compiled against executable stubs, run on every scenario up to the bound and compared with the property statements. LABELLED BOUNDED: not part of obligations/discharged.",
                                  "scenarios": xs["scenarios"], "bound": xs["bound"], "failing_checks": xs["failures"], "samples": xs.get("samples", [])[:6], "unavailable": xs["undecided"],
                                  "seconds": round(xs["wall_s"], 2), "cmd": xs["cmd"]} if xs else None),
            "bounded_stand_in_registration": ({"what": EXTRA_STANDINS["xreg"]["what"],
                                               "scenarios": xr["scenarios"], "bound": xr["bound"], "failing_checks": xr["failures"], "samples": xr.get("samples", [])[:4],
                                               "unavailable": xr["undecided"], "seconds": round(xr["wall_s"], 2), "cmd": xr["cmd"]} if xr else None),
            "bounded_stand_ins_other": {n: {"what": EXTRA_STANDINS[n]["what"], "scenarios": x["scenarios"], "bound": x["bound"], "failing_checks": x["failures"],
                                            "samples": x.get("samples", [])[:4], "unavailable": x["undecided"], "seconds": round(x["wall_s"], 2), "cmd": x["cmd"]}
                                        for n, x in extra.items() if n != "xreg"},
            "undecided": undecided,
            "exhaustive": False,
        },
        "assumptions": K.level_assumptions(prop) + ["see coverage.trusted_base: every external_body / assume_specification / uninterp item of the verified files, scanned on this run"],
        "wall_s": round(max(time.time() - t0, sum(r["wall_s"] for r in results) + sum(k["seconds"] for k in kres) + (xs["wall_s"] if xs else 0.0)), 2),
        "violations": len(violations),
    }
    os.makedirs(EVIDENCE, exist_ok=True)
    with open(os.path.join(EVIDENCE, prop + ".json"), "w") as fh:
        json.dump(ev, fh, indent=1, default=str)
    for f, k in known_hits:
        log("KNOWN-FINDING: property=%s %s [%s]" % (prop, k["what"], f.oid))
    for ln in fixed:
        pass
    LAST_VIOLATIONS[prop] = [f.oid for f, _ in violations]
    if violations:
        for f, r in violations:
            path = write_replay(prop, f, r)
            tail = "" if f.input else " no-failing-input-found"
            log("failed obligation: %s (%s)" % (f.oid, f.kind))
            log("VIOLATION property=%s replay=%s%s" % (prop, path, tail))
        return 1
    if undecided:
        for u in undecided:
            log("UNDECIDED property=%s reason=%s" % (prop, u))
        return 2
    log("OK property=%s obligations=%d discharged=%d wall=%.1fs" % (prop, n_obl, n_dis, time.time() - t0))
    return 0


if __name__ == "__main__":
    sys.exit(main())
