
#[cfg(all(test, nexosim_loom))]
mod verif_loom {
    use super::*;
    use loom::model::Builder;
    use loom::sync::Arc;
    use loom::thread;

    fn bound() -> usize {
        std::env::var("VERIF_LOOM_PREEMPTION_BOUND").ok().and_then(|s| s.parse().ok()).unwrap_or(3)
    }

    /// C12 under thread interleavings INSIDE the operations (bounded: two producer threads pushing two messages each and
    /// the consumer popping concurrently; loom's preemption bound): never more than `capacity` messages, every accepted
    /// message popped exactly once and in its producer's order, nothing popped that was not pushed, `len()` exact once
    /// the producers are done.
    fn producers_and_consumer(capacity: usize) {
        let mut builder = Builder::new();
        builder.preemption_bound = Some(bound());
        builder.check(move || {
            let q: Arc<Queue<usize>> = Arc::new(Queue::new(capacity));
            let producers: Vec<_> = (0..2usize)
                .map(|p| {
                    let q = q.clone();
                    thread::spawn(move || {
                        let mut accepted = 0usize;
                        for k in 0..2usize {
                            match q.push(|b| RecycleBox::recycle(b, 10 * (p + 1) + k)) {
                                Ok(()) => accepted += 1,
                                Err(PushError::Full(_)) => break,
                                Err(PushError::Closed) => panic!("push reported Closed on an open queue"),
                            }
                        }
                        accepted
                    })
                })
                .collect();
            let mut got: Vec<usize> = Vec::new();
            // the single consumer pops while the producers run ...
            for _ in 0..3 {
                assert!(q.len() <= capacity, "len() = {} in a queue of capacity {}", q.len(), capacity);
                match unsafe { q.pop() } {
                    Ok(m) => got.push(*m),
                    Err(PopError::Empty) => thread::yield_now(),
                    Err(PopError::Closed) => panic!("pop reported Closed on an open queue"),
                }
            }
            let accepted: Vec<usize> = producers.into_iter().map(|t| t.join().unwrap()).collect();
            // ... and drains what is left once they are done
            let left = q.len();
            let mut drained = 0;
            loop {
                match unsafe { q.pop() } {
                    Ok(m) => {
                        got.push(*m);
                        drained += 1;
                    }
                    Err(PopError::Empty) => break,
                    Err(PopError::Closed) => panic!("pop reported Closed on an open queue"),
                }
            }
            assert!(left == drained, "len() reported {} with no operation in flight, {} message(s) were there", left, drained);
            for p in 0..2usize {
                let mine: Vec<usize> = got.iter().copied().filter(|v| v / 10 == p + 1).collect();
                let want: Vec<usize> = (0..accepted[p]).map(|k| 10 * (p + 1) + k).collect();
                assert!(mine == want, "producer {} had {} message(s) accepted; the consumer got {:?} from it", p, accepted[p], mine);
            }
            assert!(got.len() == accepted[0] + accepted[1], "popped {:?}", got);
        });
    }
    #[test]
    fn verif_loom_queue_capacity_2() {
        producers_and_consumer(2);
    }
    #[test]
    fn verif_loom_queue_capacity_3() {
        producers_and_consumer(3);
    }
}
