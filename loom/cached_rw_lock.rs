
#[cfg(all(test, nexosim_loom))]
mod verif_loom {
    use super::*;
    use loom::model::Builder;
    use loom::thread;

    fn bound() -> usize {
        std::env::var("VERIF_LOOM_PREEMPTION_BOUND").ok().and_then(|s| s.parse().ok()).unwrap_or(3)
    }

    /// C14, second sentence, under thread interleavings (bounded: a writing thread, a refreshing thread and the main
    /// thread writing through a third clone; loom's preemption bound): a connection added through any clone is used by
    /// every clone's SUBSEQUENT reads - a read that happens after the write has returned (here: after joining the
    /// writing thread) sees it, whatever a concurrent refresh of that clone did in between - and what a clone sees never
    /// goes back.
    #[test]
    fn verif_loom_clones_see_completed_writes() {
        let mut builder = Builder::new();
        builder.preemption_bound = Some(bound());
        builder.check(|| {
            let mut w: CachedRwLock<Vec<u32>> = CachedRwLock::new(Vec::new());
            let mut other_writer = w.clone();
            let mut reader = w.clone();
            let th_w = thread::spawn(move || {
                w.write().unwrap().push(1);
                w
            });
            let th_r = thread::spawn(move || {
                // a concurrent refresh of the clone (what a concurrent send does)
                let seen = reader.read().unwrap().len();
                let seen2 = reader.read().unwrap().len();
                assert!(seen <= seen2, "a clone's view went back: {} then {} connections", seen, seen2);
                reader
            });
            other_writer.write().unwrap().push(2);
            let mut w = th_w.join().unwrap();
            let mut reader = th_r.join().unwrap();
            // both writes have returned: every clone's next read uses both connections
            let v = reader.read().unwrap().clone();
            assert!(v.contains(&1) && v.contains(&2) && v.len() == 2, "the refreshing clone sees {:?} after both writes returned", v);
            let v = w.read().unwrap().clone();
            assert!(v.contains(&1) && v.contains(&2) && v.len() == 2, "the first writing clone sees {:?} after both writes returned", v);
            let v = other_writer.read().unwrap().clone();
            assert!(v.contains(&1) && v.contains(&2) && v.len() == 2, "the second writing clone sees {:?} after both writes returned", v);
        });
    }

    /// The same through `write_scratchpad` (what `Output::send` uses to get its local broadcaster), two writes per thread.
    #[test]
    fn verif_loom_scratchpad_sees_completed_writes() {
        let mut builder = Builder::new();
        builder.preemption_bound = Some(bound());
        builder.check(|| {
            let mut w: CachedRwLock<Vec<u32>> = CachedRwLock::new(Vec::new());
            let mut sender = w.clone();
            let th_w = thread::spawn(move || {
                w.write().unwrap().push(1);
                w.write().unwrap().push(2);
            });
            let th_s = thread::spawn(move || {
                let a = sender.write_scratchpad().unwrap().len();
                let b = sender.write_scratchpad().unwrap().len();
                assert!(a <= b, "a clone's view went back: {} then {} connections", a, b);
                sender
            });
            th_w.join().unwrap();
            let mut sender = th_s.join().unwrap();
            let v = sender.write_scratchpad().unwrap().clone();
            assert!(v == vec![1, 2], "the sending clone sees {:?} after both writes returned", v);
        });
    }
}
